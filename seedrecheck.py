#!/usr/bin/env python3
"""Re-run checks against an already confirmed seeded change (/verif/seeded/<PID>-<v>/patch.diff) and
update the `detection` entry of its meta.json. No demo / suite run (see seedeval.py for the confirmation).
usage: ./seedrecheck.py [-j N] <PID>-<v>[:CHK1,CHK2] ... | --all"""
import json, os, shutil, subprocess, sys, time, hashlib
from concurrent.futures import ThreadPoolExecutor
ROOT = os.path.dirname(os.path.abspath(__file__))
GOENV = dict(os.environ, GOFLAGS="-mod=mod", GOPROXY="off", GOSUMDB="off", GOTOOLCHAIN="local")


def one(spec):
    name, _, chk = spec.partition(":")
    d = os.path.join(ROOT, "seeded", name)
    meta = json.load(open(os.path.join(d, "meta.json")))
    checks = chk.split(",") if chk else [meta["property"]]
    wt = "/tmp/seedwork/recheck_%s" % name
    subprocess.run(["git", "-C", "/repo", "worktree", "remove", "--force", wt], stdout=subprocess.DEVNULL, stderr=subprocess.DEVNULL)
    os.makedirs("/tmp/seedwork", exist_ok=True)
    subprocess.run(["git", "-C", "/repo", "worktree", "add", "--detach", wt, "HEAD"], stdout=subprocess.DEVNULL, stderr=subprocess.DEVNULL)
    out = []
    try:
        p = subprocess.run(["git", "apply", os.path.join(d, "patch.diff")], cwd=wt, stdout=subprocess.PIPE, stderr=subprocess.STDOUT)
        if p.returncode != 0:
            p = subprocess.run(["git", "apply", "-3", os.path.join(d, "patch.diff")], cwd=wt, stdout=subprocess.PIPE, stderr=subprocess.STDOUT)
        if p.returncode != 0:
            return "%s: patch no longer applies: %s" % (name, p.stdout.decode()[-200:])
        b = subprocess.run(["go", "build", "./..."], cwd=wt, env=GOENV, stdout=subprocess.PIPE, stderr=subprocess.STDOUT)
        if b.returncode != 0:
            return "%s: does not build any more" % name
        for c in checks:
            t0 = time.time()
            r = subprocess.run([os.path.join(ROOT, "check"), c, "quick"], cwd=ROOT, env=dict(os.environ, VERIF_REPO=wt), stdout=subprocess.PIPE, stderr=subprocess.STDOUT)
            o = r.stdout.decode()
            det = [l.strip()[:500] for l in o.splitlines() if "violation detail" in l][:2]
            verdict = "CAUGHT" if r.returncode == 1 and "VIOLATION property=%s" % c in o else ("INCONCLUSIVE" if r.returncode == 2 else "MISSED")
            meta.setdefault("detection", {})[c] = {"verdict": verdict, "wall_s": round(time.time() - t0), "detail": det}
            out.append("%s check %s: %s (%ds) %s" % (name, c, verdict, time.time() - t0, det[0][:160] if det else ""))
        json.dump(meta, open(os.path.join(d, "meta.json"), "w"), indent=1)
    finally:
        subprocess.run(["git", "-C", "/repo", "worktree", "remove", "--force", wt], stdout=subprocess.DEVNULL, stderr=subprocess.DEVNULL)
        shutil.rmtree(wt, ignore_errors=True)
        h = hashlib.sha1(os.path.realpath(wt).encode()).hexdigest()[:10]
        shutil.rmtree(os.path.join(ROOT, "out", "alt", h), ignore_errors=True)
    return "\n".join(out)


def main():
    a = sys.argv[1:]
    jobs = 1
    if a and a[0] == "-j":
        jobs = int(a[1]); a = a[2:]
    if a and a[0] == "--all":
        a = sorted(os.listdir(os.path.join(ROOT, "seeded")))
    with ThreadPoolExecutor(max_workers=jobs) as ex:
        for r in ex.map(one, a):
            try:
                print(r, flush=True)
            except BrokenPipeError:
                pass


if __name__ == "__main__":
    main()
