/*
 * sysstop — ptrace supervisor for crash / hold injection at system-call boundaries.
 *
 *   sysstop [options] -- cmd args...
 *     -c CLASSES   which system calls are counted: f = file mutations (openat with
 *                  O_CREAT/O_TRUNC/O_APPEND/O_WRONLY/O_RDWR, write/pwrite64/writev, rename*,
 *                  unlink*, mkdir*, ftruncate, fsync, fdatasync, close — only on paths / fds
 *                  under the -p prefix), s = unix-socket calls (socket(AF_UNIX), bind, listen,
 *                  connect, accept4, and unlink/close of sockets), p = execve (process spawn),
 *                  r = file reads (read-only openat, read/pread64, getdents64, stat/fstat/statx
 *                  on paths / fds under the -p prefix)
 *     -p PREFIX    path prefix that file operations must touch to be counted (repeatable, max 4)
 *     -k K         SIGKILL the whole traced tree at the ENTRY of the K-th counted call
 *     -h K         hold the calling thread at the entry of the K-th counted call, run the
 *                  -r command to completion (other threads keep running), then resume it
 *     -r CMD       shell command for -h
 *     -f K:ERRNO   make the K-th counted call FAIL with errno ERRNO without executing it
 *                  (fault injection: the call number is replaced by an invalid one at the
 *                  entry and the result by -ERRNO at the exit)
 *     -l FILE      log every counted call: "<n> <pid> <name> <detail>"
 *     -o FILE      write the total number of counted calls (and "killed"/"held" notes)
 *   exit status: that of cmd; 137 when killed by -k.
 *
 * The tracee tree is followed through fork/vfork/clone (threads included). PTRACE_O_EXITKILL
 * guarantees that nothing traced survives the supervisor.
 */
#define _GNU_SOURCE
#include <errno.h>
#include <fcntl.h>
#include <signal.h>
#include <stdio.h>
#include <stdlib.h>
#include <string.h>
#include <sys/ptrace.h>
#include <sys/socket.h>
#include <sys/syscall.h>
#include <sys/types.h>
#include <sys/uio.h>
#include <sys/user.h>
#include <sys/wait.h>
#include <unistd.h>
#include <linux/ptrace.h>

static const char *prefixes[4];
static int nprefix;
static int cls_f, cls_s, cls_p, cls_r;
static long kill_at = -1, hold_at = -1, fail_at = -1, fail_errno = 0;
/* -f NAME#N:ERRNO: the N-th counted call NAMEd so fails (robust against the
 * order in which the threads of the tracee reach their calls) */
static const char *fail_name = 0;
static long fail_nth = 0, fail_seen = 0;
static const char *run_cmd, *log_path, *out_path;
static FILE *logf;
static long counted;

static int under_prefix(const char *p) {
	if (nprefix == 0) return 1;
	for (int i = 0; i < nprefix; i++)
		if (strncmp(p, prefixes[i], strlen(prefixes[i])) == 0) return 1;
	return 0;
}

static int read_str(pid_t pid, unsigned long addr, char *buf, size_t n) {
	struct iovec l = {buf, n - 1}, r = {(void *)addr, n - 1};
	buf[0] = 0;
	if (!addr) return -1;
	ssize_t got = process_vm_readv(pid, &l, 1, &r, 1, 0);
	if (got <= 0) {
		/* the string may end before a page boundary: read byte-wise */
		size_t i = 0;
		for (; i < n - 1; i++) {
			struct iovec l1 = {buf + i, 1}, r1 = {(void *)(addr + i), 1};
			if (process_vm_readv(pid, &l1, 1, &r1, 1, 0) != 1) break;
			if (!buf[i]) return 0;
		}
		buf[i] = 0;
		return i ? 0 : -1;
	}
	buf[got] = 0;
	return 0;
}

static int fd_path(pid_t pid, long fd, char *buf, size_t n) {
	char link[64];
	snprintf(link, sizeof link, "/proc/%d/fd/%ld", pid, fd);
	ssize_t k = readlink(link, buf, n - 1);
	if (k < 0) { buf[0] = 0; return -1; }
	buf[k] = 0;
	return 0;
}

static void abs_path(pid_t pid, long dirfd, const char *p, char *out, size_t n) {
	if (p[0] == '/') { snprintf(out, n, "%s", p); return; }
	char base[4096];
	if (dirfd == AT_FDCWD) {
		char link[64];
		snprintf(link, sizeof link, "/proc/%d/cwd", pid);
		ssize_t k = readlink(link, base, sizeof base - 1);
		base[k < 0 ? 0 : k] = 0;
	} else {
		fd_path(pid, dirfd, base, sizeof base);
	}
	snprintf(out, n, "%s/%s", base, p);
}

/* decides whether the syscall at entry is counted; fills name/detail */
static int classify(pid_t pid, struct ptrace_syscall_info *si, const char **name, char *detail, size_t dn) {
	unsigned long long *a = si->entry.args;
	long nr = si->entry.nr;
	char p[4096], q[4096];
	detail[0] = 0;
	switch (nr) {
	case SYS_openat:
	case SYS_open: {
		int flags = (int)(nr == SYS_openat ? a[2] : a[1]);
		int mut = (flags & (O_CREAT | O_TRUNC | O_APPEND | O_WRONLY | O_RDWR)) != 0;
		if (!(mut ? cls_f : cls_r)) return 0;
		if (read_str(pid, nr == SYS_openat ? a[1] : a[0], p, sizeof p)) return 0;
		abs_path(pid, nr == SYS_openat ? (int)a[0] : AT_FDCWD, p, q, sizeof q);
		if (!under_prefix(q)) return 0;
		if (!mut) { *name = "openr"; snprintf(detail, dn, "%s", q); return 1; }
		*name = "open";
		snprintf(detail, dn, "%s flags=%s%s%s", q, flags & O_CREAT ? "C" : "", flags & O_TRUNC ? "T" : "", flags & O_APPEND ? "A" : "");
		return 1;
	}
	case SYS_read:
	case SYS_pread64:
	case SYS_getdents64:
	case SYS_fstat:
		if (!cls_r || fd_path(pid, a[0], p, sizeof p)) return 0;
		if (p[0] == '/' && under_prefix(p)) {
			*name = nr == SYS_getdents64 ? "getdents" : nr == SYS_fstat ? "fstat" : "read";
			snprintf(detail, dn, "%s", p);
			return 1;
		}
		return 0;
	case SYS_stat:
	case SYS_lstat:
	case SYS_newfstatat:
	case SYS_statx: {
		if (!cls_r) return 0;
		int at = nr == SYS_newfstatat || nr == SYS_statx;
		if (read_str(pid, at ? a[1] : a[0], p, sizeof p)) return 0;
		if (!p[0]) return 0;
		abs_path(pid, at ? (int)a[0] : AT_FDCWD, p, q, sizeof q);
		if (!under_prefix(q)) return 0;
		*name = "stat";
		snprintf(detail, dn, "%s", q);
		return 1;
	}
	case SYS_write:
	case SYS_pwrite64:
	case SYS_writev:
		if (fd_path(pid, a[0], p, sizeof p)) return 0;
		if (cls_f && p[0] == '/' && under_prefix(p)) {
			*name = "write";
			snprintf(detail, dn, "%s len=%llu", p, nr == SYS_writev ? 0ULL : a[2]);
			return 1;
		}
		return 0;
	case SYS_close:
		if (fd_path(pid, a[0], p, sizeof p)) return 0;
		if (cls_f && p[0] == '/' && under_prefix(p)) { *name = "close"; snprintf(detail, dn, "%s", p); return 1; }
		return 0;
	case SYS_fsync:
	case SYS_fdatasync:
	case SYS_ftruncate:
		if (!cls_f || fd_path(pid, a[0], p, sizeof p) || !under_prefix(p)) return 0;
		*name = nr == SYS_ftruncate ? "ftruncate" : "fsync";
		snprintf(detail, dn, "%s", p);
		return 1;
	case SYS_rename:
	case SYS_renameat:
	case SYS_renameat2: {
		if (!cls_f) return 0;
		unsigned long from = nr == SYS_rename ? a[0] : a[1], to = nr == SYS_rename ? a[1] : a[3];
		char f1[4096], f2[4096];
		if (read_str(pid, from, p, sizeof p) || read_str(pid, to, q, sizeof q)) return 0;
		abs_path(pid, nr == SYS_rename ? AT_FDCWD : (int)a[0], p, f1, sizeof f1);
		abs_path(pid, nr == SYS_rename ? AT_FDCWD : (int)a[2], q, f2, sizeof f2);
		if (!under_prefix(f1) && !under_prefix(f2)) return 0;
		*name = "rename";
		snprintf(detail, dn, "%s -> %s", f1, f2);
		return 1;
	}
	case SYS_unlink:
	case SYS_unlinkat:
	case SYS_rmdir: {
		if (read_str(pid, nr == SYS_unlinkat ? a[1] : a[0], p, sizeof p)) return 0;
		abs_path(pid, nr == SYS_unlinkat ? (int)a[0] : AT_FDCWD, p, q, sizeof q);
		int is_sock = strstr(q, ".sock") != NULL;
		if ((cls_f && under_prefix(q)) || (cls_s && is_sock)) { *name = "unlink"; snprintf(detail, dn, "%s", q); return 1; }
		return 0;
	}
	case SYS_mkdir:
	case SYS_mkdirat:
		if (!cls_f) return 0;
		if (read_str(pid, nr == SYS_mkdirat ? a[1] : a[0], p, sizeof p)) return 0;
		abs_path(pid, nr == SYS_mkdirat ? (int)a[0] : AT_FDCWD, p, q, sizeof q);
		if (!under_prefix(q)) return 0;
		*name = "mkdir";
		snprintf(detail, dn, "%s", q);
		return 1;
	case SYS_socket:
		if (cls_s && a[0] == AF_UNIX) { *name = "socket"; return 1; }
		return 0;
	case SYS_bind:
	case SYS_connect: {
		if (!cls_s) return 0;
		struct sockaddr sa;
		struct iovec l = {&sa, sizeof sa}, r = {(void *)a[1], sizeof sa};
		if (process_vm_readv(pid, &l, 1, &r, 1, 0) < 2 || sa.sa_family != AF_UNIX) return 0;
		read_str(pid, a[1] + 2, p, sizeof p);
		*name = nr == SYS_bind ? "bind" : "connect";
		snprintf(detail, dn, "%s", p);
		return 1;
	}
	case SYS_listen:
		if (cls_s) { *name = "listen"; return 1; }
		return 0;
	case SYS_accept4:
	case SYS_accept:
		if (cls_s) { *name = "accept"; return 1; }
		return 0;
	case SYS_execve:
		if (!cls_p) return 0;
		read_str(pid, a[0], p, sizeof p);
		*name = "execve";
		snprintf(detail, dn, "%s", p);
		return 1;
	}
	return 0;
}

static void finish(const char *note, int status) {
	if (out_path) {
		FILE *o = fopen(out_path, "w");
		if (o) { fprintf(o, "%ld %s\n", counted, note); fclose(o); }
	}
	if (logf) fclose(logf);
	exit(status);
}

int main(int argc, char **argv) {
	int i = 1;
	for (; i < argc; i++) {
		if (!strcmp(argv[i], "--")) { i++; break; }
		if (!strcmp(argv[i], "-c") && i + 1 < argc) {
			for (const char *c = argv[++i]; *c; c++) { if (*c == 'f') cls_f = 1; if (*c == 's') cls_s = 1; if (*c == 'p') cls_p = 1; if (*c == 'r') cls_r = 1; }
		} else if (!strcmp(argv[i], "-p") && i + 1 < argc) { if (nprefix < 4) prefixes[nprefix++] = argv[++i]; else i++; }
		else if (!strcmp(argv[i], "-k") && i + 1 < argc) kill_at = atol(argv[++i]);
		else if (!strcmp(argv[i], "-h") && i + 1 < argc) hold_at = atol(argv[++i]);
		else if (!strcmp(argv[i], "-r") && i + 1 < argc) run_cmd = argv[++i];
		else if (!strcmp(argv[i], "-f") && i + 1 < argc) {
			char *c = strchr(argv[++i], ':');
			fail_errno = c ? atol(c + 1) : 5;
			if (argv[i][0] >= '0' && argv[i][0] <= '9') fail_at = atol(argv[i]);
			else {
				char *h = strchr(argv[i], '#');
				fail_nth = h ? atol(h + 1) : 1;
				size_t n = h ? (size_t)(h - argv[i]) : (c ? (size_t)(c - argv[i]) : strlen(argv[i]));
				char *nm = malloc(n + 1);
				memcpy(nm, argv[i], n); nm[n] = 0;
				fail_name = nm;
			}
		}
		else if (!strcmp(argv[i], "-l") && i + 1 < argc) log_path = argv[++i];
		else if (!strcmp(argv[i], "-o") && i + 1 < argc) out_path = argv[++i];
		else { fprintf(stderr, "sysstop: bad option %s\n", argv[i]); return 2; }
	}
	if (i >= argc) { fprintf(stderr, "usage: sysstop [opts] -- cmd args...\n"); return 2; }
	if (!cls_f && !cls_s && !cls_p && !cls_r) cls_f = 1;
	if (log_path) logf = fopen(log_path, "w");

	pid_t child = fork();
	if (child < 0) { perror("fork"); return 2; }
	if (child == 0) {
		ptrace(PTRACE_TRACEME, 0, 0, 0);
		raise(SIGSTOP);
		execvp(argv[i], argv + i);
		perror("execvp");
		_exit(127);
	}
	int status;
	waitpid(child, &status, 0);
	long opts = PTRACE_O_TRACESYSGOOD | PTRACE_O_TRACECLONE | PTRACE_O_TRACEFORK | PTRACE_O_TRACEVFORK | PTRACE_O_TRACEEXEC | PTRACE_O_EXITKILL;
	if (ptrace(PTRACE_SETOPTIONS, child, 0, opts) < 0) { perror("PTRACE_SETOPTIONS"); return 2; }
	ptrace(PTRACE_SYSCALL, child, 0, 0);

	pid_t helper = -1, held = -1, failing = -1;
	int exit_status = 0, root_done = 0;
	for (;;) {
		pid_t pid = waitpid(-1, &status, __WALL);
		if (pid < 0) {
			if (errno == EINTR) continue;
			break; /* ECHILD: everything is gone */
		}
		if (pid == helper) {
			if (WIFEXITED(status) || WIFSIGNALED(status)) {
				helper = -1;
				if (held > 0) { ptrace(PTRACE_SYSCALL, held, 0, 0); held = -1; }
			}
			continue;
		}
		if (WIFEXITED(status) || WIFSIGNALED(status)) {
			if (pid == child) {
				exit_status = WIFEXITED(status) ? WEXITSTATUS(status) : 128 + WTERMSIG(status);
				root_done = 1;
			}
			continue;
		}
		if (!WIFSTOPPED(status)) continue;
		int sig = WSTOPSIG(status);
		if (sig == (SIGTRAP | 0x80)) {
			struct ptrace_syscall_info si;
			memset(&si, 0, sizeof si);
			long got = ptrace(PTRACE_GET_SYSCALL_INFO, pid, sizeof si, &si);
			if (got > 0 && si.op == PTRACE_SYSCALL_INFO_EXIT && pid == failing) {
				/* exit of the call that was turned into an invalid one: plant the error */
				struct user_regs_struct regs;
				if (ptrace(PTRACE_GETREGS, pid, 0, &regs) == 0) {
					regs.rax = (unsigned long long)(-fail_errno);
					ptrace(PTRACE_SETREGS, pid, 0, &regs);
				}
				failing = -1;
				ptrace(PTRACE_SYSCALL, pid, 0, 0);
				continue;
			}
			if (got > 0 && si.op == PTRACE_SYSCALL_INFO_ENTRY) {
				const char *name = "";
				char detail[9000];
				if (classify(pid, &si, &name, detail, sizeof detail)) {
					counted++;
					if (logf) { fprintf(logf, "%ld %d %s %s\n", counted, pid, name, detail); fflush(logf); }
					if (counted == kill_at) {
						/* leaving kills every tracee (PTRACE_O_EXITKILL) before the call executes */
						finish("killed", 137);
					}
					if (counted == fail_at || (fail_name && !strcmp(name, fail_name) && ++fail_seen == fail_nth)) {
						struct user_regs_struct regs;
						if (ptrace(PTRACE_GETREGS, pid, 0, &regs) == 0) {
							regs.orig_rax = (unsigned long long)-1; /* no such call: the kernel skips it */
							ptrace(PTRACE_SETREGS, pid, 0, &regs);
							failing = pid;
						}
					}
					if (counted == hold_at && run_cmd) {
						helper = fork();
						if (helper == 0) {
							execl("/bin/sh", "sh", "-c", run_cmd, (char *)NULL);
							_exit(127);
						}
						held = pid;
						continue; /* the calling thread stays stopped at the entry */
					}
				}
			}
			ptrace(PTRACE_SYSCALL, pid, 0, 0);
			continue;
		}
		if (sig == SIGTRAP) { /* PTRACE_EVENT_* stops */
			ptrace(PTRACE_SYSCALL, pid, 0, 0);
			continue;
		}
		if (sig == SIGSTOP && pid != child) {
			/* initial stop of a new tracee */
			ptrace(PTRACE_SYSCALL, pid, 0, 0);
			continue;
		}
		/* deliver other signals to the tracee */
		ptrace(PTRACE_SYSCALL, pid, 0, sig);
	}
	(void)root_done;
	finish(hold_at > 0 ? "held" : "done", exit_status);
	return 0;
}
