// Package rep collects what a check run actually covered (counters measured at
// run time, never constants) and writes one shard report that the driver
// (/verif/check) merges into /verif/evidence/<id>.json. It also owns the
// failing-case file (the library-free replay unit) and the list of open known
// findings.
package rep

import (
	"crypto/sha256"
	"encoding/hex"
	"encoding/json"
	"fmt"
	"os"
	"sort"
	"strconv"
	"sync"
)

// Report is one shard's measured coverage.
type Report struct {
	Property      string         `json:"property"`
	Sub           string         `json:"sub,omitempty"`
	Evaluations   int            `json:"evaluations"`
	Nontrivial    []string       `json:"nontrivial_hashes"`
	Labels        map[string]int `json:"labels"`
	ExcludedKnown map[string]int `json:"excluded_known"`
	KnownHits     map[string]int `json:"known_hits"`
	Samples       []any          `json:"samples"`
	Exhaustive    []string       `json:"exhaustive_spaces,omitempty"`
	Notes         []string       `json:"notes,omitempty"`
	NontrivCount  int            `json:"nontrivial_counted"` // distinct by construction (enumerations)
	Inconclusive  int            `json:"inconclusive"`
	Failures      int            `json:"failures"`
}

var (
	mu      sync.Mutex
	cur     = newReport()
	nontriv = map[string]struct{}{}
	known   map[string]bool
	maxSamp = 4
)

func newReport() *Report {
	return &Report{Labels: map[string]int{}, ExcludedKnown: map[string]int{}, KnownHits: map[string]int{}}
}

// Tier returns "quick" or "thorough".
func Tier() string {
	if os.Getenv("VERIF_TIER") == "thorough" {
		return "thorough"
	}
	return "quick"
}

// Thorough reports whether the thorough tier is running.
func Thorough() bool { return Tier() == "thorough" }

// EnvInt reads an integer from the environment.
func EnvInt(name string, def int) int {
	if v, err := strconv.Atoi(os.Getenv(name)); err == nil {
		return v
	}
	return def
}

// Hash is the canonical hash of a case (JSON of plain data; struct field order
// is fixed, maps are sorted by encoding/json).
func Hash(v any) string {
	b, err := json.Marshal(v)
	if err != nil {
		b = []byte(fmt.Sprintf("%#v", v))
	}
	s := sha256.Sum256(b)
	return hex.EncodeToString(s[:10])
}

// Eval counts one judged case. nontrivialKey != "" marks it non-trivial by the
// property's stated rule; the key (normally Hash(case+realised order)) makes
// it distinct.
func Eval(nontrivialKey string, labels ...string) {
	mu.Lock()
	defer mu.Unlock()
	cur.Evaluations++
	if nontrivialKey != "" {
		nontriv[nontrivialKey] = struct{}{}
	}
	for _, l := range labels {
		cur.Labels[l]++
	}
}

// EvalCounted counts one judged case of an enumeration whose members are
// distinct by construction (each enumerated exactly once), so no hash is kept.
func EvalCounted(nontrivial bool, labels ...string) {
	mu.Lock()
	defer mu.Unlock()
	cur.Evaluations++
	if nontrivial {
		cur.NontrivCount++
	}
	for _, l := range labels {
		cur.Labels[l]++
	}
}

// Label adds to the class histogram without counting an evaluation.
func Label(labels ...string) {
	mu.Lock()
	defer mu.Unlock()
	for _, l := range labels {
		cur.Labels[l]++
	}
}

// Sample stores up to a handful of actual cases.
func Sample(v any) {
	mu.Lock()
	defer mu.Unlock()
	if len(cur.Samples) < maxSamp {
		cur.Samples = append(cur.Samples, v)
	}
}

// WantSample tells whether another sample is still wanted (cheap pre-check).
func WantSample() bool {
	mu.Lock()
	defer mu.Unlock()
	return len(cur.Samples) < maxSamp
}

// Excluded counts a case steered away from an open known finding.
func Excluded(signature string) {
	mu.Lock()
	defer mu.Unlock()
	cur.ExcludedKnown[signature]++
}

// KnownHit counts a reproduction of an open known finding by its dedicated probe.
func KnownHit(signature string) {
	mu.Lock()
	defer mu.Unlock()
	cur.KnownHits[signature]++
}

// Inconclusive counts a case that hit a time budget (never a violation).
func Inconclusive(note string) {
	mu.Lock()
	defer mu.Unlock()
	cur.Inconclusive++
	if len(cur.Notes) < 20 {
		cur.Notes = append(cur.Notes, "inconclusive: "+note)
	}
}

// Note adds a free-text note to the shard report.
func Note(format string, a ...any) {
	mu.Lock()
	defer mu.Unlock()
	if len(cur.Notes) < 40 {
		cur.Notes = append(cur.Notes, fmt.Sprintf(format, a...))
	}
}

// ExhaustiveSpace records that a finite sub-space was enumerated completely.
func ExhaustiveSpace(name string) {
	mu.Lock()
	defer mu.Unlock()
	cur.Exhaustive = append(cur.Exhaustive, name)
}

// Flush writes the shard report to $VERIF_REPORT (no-op when unset).
func Flush(property string) {
	mu.Lock()
	defer mu.Unlock()
	path := os.Getenv("VERIF_REPORT")
	if path == "" {
		return
	}
	cur.Property = property
	cur.Nontrivial = cur.Nontrivial[:0]
	for k := range nontriv {
		cur.Nontrivial = append(cur.Nontrivial, k)
	}
	sort.Strings(cur.Nontrivial)
	b, _ := json.Marshal(cur)
	tmp := path + ".tmp"
	if err := os.WriteFile(tmp, b, 0o644); err == nil {
		_ = os.Rename(tmp, path)
	}
}

// CaseFile is the replay unit written for every failing case.
type CaseFile struct {
	Property string          `json:"property"`
	Sub      string          `json:"sub"`
	Message  string          `json:"message"`
	Case     json.RawMessage `json:"case"`
	Observed any             `json:"observed,omitempty"`
}

// Fataler is satisfied by *testing.T and *rapid.T.
type Fataler interface {
	Fatalf(format string, args ...any)
}

// Fail writes the failing case to $VERIF_FAILCASE (overwriting: rapid's last
// failing invocation is the shrunk one) and fails the test.
func Fail(t Fataler, property, sub string, c any, observed any, format string, args ...any) {
	msg := fmt.Sprintf(format, args...)
	WriteCase(property, sub, c, observed, msg)
	mu.Lock()
	cur.Failures++
	mu.Unlock()
	t.Fatalf("%s/%s: %s", property, sub, msg)
}

// WriteCase writes the case file without failing.
func WriteCase(property, sub string, c any, observed any, msg string) {
	path := os.Getenv("VERIF_FAILCASE")
	if path == "" {
		return
	}
	raw, _ := json.Marshal(c)
	b, _ := json.MarshalIndent(CaseFile{Property: property, Sub: sub, Message: msg, Case: raw, Observed: observed}, "", " ")
	tmp := path + ".tmp"
	if err := os.WriteFile(tmp, b, 0o644); err == nil {
		_ = os.Rename(tmp, path)
	}
}

// Begin records the case that is about to be executed in $VERIF_FAILCASE.cur.
// Checks that run the code under test in-process with real goroutines (agent,
// real executors) call it first: a panic in a goroutine of the code under test
// cannot be recovered and kills the worker; the driver then promotes this file
// to the failing case (a crash of the code under test on a generated input is
// a violation, a worker death without a panic trace stays inconclusive).
func Begin(property, sub string, c any) {
	path := os.Getenv("VERIF_FAILCASE")
	if path == "" {
		return
	}
	raw, _ := json.Marshal(c)
	b, _ := json.Marshal(CaseFile{Property: property, Sub: sub, Message: "the worker process died while this case was executing", Case: raw})
	tmp := path + ".cur.tmp"
	if err := os.WriteFile(tmp, b, 0o644); err == nil {
		_ = os.Rename(tmp, path+".cur")
	}
}

// LoadCase reads a case file.
func LoadCase(path string) (*CaseFile, error) {
	b, err := os.ReadFile(path)
	if err != nil {
		return nil, err
	}
	var cf CaseFile
	if err := json.Unmarshal(b, &cf); err != nil {
		return nil, err
	}
	return &cf, nil
}

type knownFile struct {
	Findings []struct {
		Property  string `json:"property"`
		Status    string `json:"status"`
		Signature string `json:"signature"`
	} `json:"findings"`
}

// Known tells whether the signature is listed as an OPEN finding in
// /verif/known_findings.json ($VERIF_KNOWN). The file is only ever read.
func Known(signature string) bool {
	mu.Lock()
	defer mu.Unlock()
	if known == nil {
		known = map[string]bool{}
		path := os.Getenv("VERIF_KNOWN")
		if path == "" {
			path = "/verif/known_findings.json"
		}
		if b, err := os.ReadFile(path); err == nil {
			var kf knownFile
			if json.Unmarshal(b, &kf) == nil {
				for _, f := range kf.Findings {
					if f.Status == "open" {
						known[f.Signature] = true
					}
				}
			}
		}
	}
	return known[signature]
}

// TestingM is satisfied by *testing.M.
type TestingM interface{ Run() int }

// Main runs the tests of a check package and flushes the shard report.
func Main(m TestingM, property string) {
	code := m.Run()
	Flush(property)
	os.Exit(code)
}

// ReplayPath returns the case file to replay ($VERIF_REPLAY) or "".
func ReplayPath() string { return os.Getenv("VERIF_REPLAY") }
