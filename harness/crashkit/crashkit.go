// Package crashkit runs helper processes under the sysstop ptrace supervisor:
// count the relevant system calls of a run, kill the whole traced tree at the
// entry of the k-th one, or hold the calling thread there while another command
// runs. The crash / hold point is a plain integer the checks generate.
package crashkit

import (
	"bytes"
	"context"
	"fmt"
	"os"
	"os/exec"
	"path/filepath"
	"strconv"
	"strings"
	"time"
)

// Call is one counted system call of a dry pass.
type Call struct {
	N      int    `json:"n"`
	PID    int    `json:"pid"`
	Name   string `json:"name"`
	Detail string `json:"detail"`
}

// Result of one supervised run.
type Result struct {
	Counted  int    `json:"counted"`
	Note     string `json:"note"` // done | killed | held
	Exit     int    `json:"exit"`
	Stdout   string `json:"stdout"`
	Stderr   string `json:"stderr,omitempty"`
	Calls    []Call `json:"-"`
	TimedOut bool   `json:"timedOut,omitempty"`
}

// Opts configures a supervised run.
type Opts struct {
	Classes   string   // subset of "fsp"
	Prefixes  []string // path prefixes for file operations
	KillAt    int      // >0: kill at the entry of this counted call
	HoldAt    int      // >0: hold there and run HoldCmd
	HoldCmd   string
	FailAt    int // >0: make this counted call fail with FailErrno instead of executing it
	FailErrno int
	// FailCall (with FailNth, default 1): make the N-th counted call of that NAME
	// fail instead — independent of the order in which threads reach their calls
	FailCall string
	FailNth  int
	Env      []string
	Dir      string
	Timeout  time.Duration
	WantLog  bool
}

// Sysstop is the path of the supervisor binary ($VERIF_SYSSTOP).
func Sysstop() string { return os.Getenv("VERIF_SYSSTOP") }

// Run executes argv under the supervisor.
func Run(scratch string, o Opts, argv ...string) (*Result, error) {
	tmp, err := os.MkdirTemp(scratch, "sysstop")
	if err != nil {
		return nil, err
	}
	defer os.RemoveAll(tmp)
	out := filepath.Join(tmp, "out")
	args := []string{"-c", o.Classes, "-o", out}
	for _, p := range o.Prefixes {
		args = append(args, "-p", p)
	}
	logPath := filepath.Join(tmp, "log")
	if o.WantLog {
		args = append(args, "-l", logPath)
	}
	if o.KillAt > 0 {
		args = append(args, "-k", strconv.Itoa(o.KillAt))
	}
	if o.HoldAt > 0 {
		args = append(args, "-h", strconv.Itoa(o.HoldAt), "-r", o.HoldCmd)
	}
	if o.FailCall != "" {
		n := o.FailNth
		if n <= 0 {
			n = 1
		}
		args = append(args, "-f", fmt.Sprintf("%s#%d:%d", o.FailCall, n, o.FailErrno))
	} else if o.FailAt > 0 {
		args = append(args, "-f", fmt.Sprintf("%d:%d", o.FailAt, o.FailErrno))
	}
	args = append(args, "--")
	args = append(args, argv...)
	to := o.Timeout
	if to == 0 {
		to = 60 * time.Second
	}
	ctx, cancel := context.WithTimeout(context.Background(), to)
	defer cancel()
	cmd := exec.CommandContext(ctx, Sysstop(), args...)
	cmd.Env, cmd.Dir = o.Env, o.Dir
	var so, se bytes.Buffer
	cmd.Stdout, cmd.Stderr = &so, &se
	runErr := cmd.Run()
	r := &Result{Stdout: so.String(), Stderr: se.String()}
	if ctx.Err() != nil {
		r.TimedOut = true
		return r, nil
	}
	if ee, ok := runErr.(*exec.ExitError); ok {
		r.Exit = ee.ExitCode()
	} else if runErr != nil {
		return nil, runErr
	}
	if b, err := os.ReadFile(out); err == nil {
		f := strings.Fields(string(b))
		if len(f) >= 2 {
			r.Counted, _ = strconv.Atoi(f[0])
			r.Note = f[1]
		}
	} else {
		return nil, fmt.Errorf("sysstop wrote no result (exit %d): %s", r.Exit, se.String())
	}
	if o.WantLog {
		if b, err := os.ReadFile(logPath); err == nil {
			for _, l := range strings.Split(strings.TrimSpace(string(b)), "\n") {
				f := strings.SplitN(l, " ", 4)
				if len(f) < 3 {
					continue
				}
				c := Call{Name: f[2]}
				c.N, _ = strconv.Atoi(f[0])
				c.PID, _ = strconv.Atoi(f[1])
				if len(f) == 4 {
					c.Detail = f[3]
				}
				r.Calls = append(r.Calls, c)
			}
		}
	}
	return r, nil
}

// Acks parses the "ACK i" / "ERR i" lines of the recorder's stdout and returns
// the highest acknowledged index (-1 if none) and the indices that returned an error.
func Acks(stdout string) (last int, errs map[int]string) {
	last = -1
	errs = map[int]string{}
	for _, l := range strings.Split(stdout, "\n") {
		f := strings.SplitN(l, " ", 3)
		if len(f) >= 2 && (f[0] == "ACK" || f[0] == "ERR") {
			i, err := strconv.Atoi(f[1])
			if err != nil {
				continue
			}
			if i > last {
				last = i
			}
			if f[0] == "ERR" {
				msg := ""
				if len(f) == 3 {
					msg = f[2]
				}
				errs[i] = msg
			}
		}
	}
	return
}
