module github.com/ErdemOzgen/blackdagger/verifharness

go 1.23

toolchain go1.23.5

require (
	github.com/ErdemOzgen/blackdagger v0.0.0
	github.com/go-openapi/loads v0.22.0
	github.com/robfig/cron/v3 v3.0.1
	golang.org/x/sys v0.30.0
	gopkg.in/yaml.v2 v2.4.0
	pgregory.net/rapid v1.3.0
)

require (
	github.com/adrg/xdg v0.5.0 // indirect
	github.com/asaskevich/govalidator v0.0.0-20230301143203-a9d515a09cc2 // indirect
	github.com/docker/distribution v2.8.1+incompatible // indirect
	github.com/docker/docker v20.10.21+incompatible // indirect
	github.com/docker/go-connections v0.4.0 // indirect
	github.com/docker/go-units v0.5.0 // indirect
	github.com/fsnotify/fsnotify v1.8.0 // indirect
	github.com/go-chi/chi/v5 v5.0.8 // indirect
	github.com/go-openapi/analysis v0.23.0 // indirect
	github.com/go-openapi/errors v0.22.0 // indirect
	github.com/go-openapi/jsonpointer v0.21.0 // indirect
	github.com/go-openapi/jsonreference v0.21.0 // indirect
	github.com/go-openapi/runtime v0.28.0 // indirect
	github.com/go-openapi/spec v0.21.0 // indirect
	github.com/go-openapi/strfmt v0.23.0 // indirect
	github.com/go-openapi/swag v0.23.0 // indirect
	github.com/go-openapi/validate v0.24.0 // indirect
	github.com/go-resty/resty/v2 v2.7.0 // indirect
	github.com/gogo/protobuf v1.3.2 // indirect
	github.com/google/uuid v1.6.0 // indirect
	github.com/hashicorp/hcl v1.0.0 // indirect
	github.com/imdario/mergo v0.3.16 // indirect
	github.com/itchyny/gojq v0.12.12 // indirect
	github.com/itchyny/timefmt-go v0.1.5 // indirect
	github.com/jedib0t/go-pretty/v6 v6.3.6 // indirect
	github.com/jessevdk/go-flags v1.5.0 // indirect
	github.com/josharian/intern v1.0.0 // indirect
	github.com/magiconair/properties v1.8.7 // indirect
	github.com/mailru/easyjson v0.7.7 // indirect
	github.com/mattn/go-runewidth v0.0.14 // indirect
	github.com/mattn/go-shellwords v1.0.12 // indirect
	github.com/mitchellh/mapstructure v1.5.0 // indirect
	github.com/oklog/ulid v1.3.1 // indirect
	github.com/opencontainers/go-digest v1.0.0 // indirect
	github.com/opencontainers/image-spec v1.0.2 // indirect
	github.com/pelletier/go-toml/v2 v2.2.2 // indirect
	github.com/pkg/errors v0.9.1 // indirect
	github.com/rivo/uniseg v0.4.4 // indirect
	github.com/sagikazarmark/slog-shim v0.1.0 // indirect
	github.com/samber/lo v1.38.1 // indirect
	github.com/samber/slog-multi v1.2.0 // indirect
	github.com/sirupsen/logrus v1.9.3 // indirect
	github.com/spf13/afero v1.11.0 // indirect
	github.com/spf13/cast v1.6.0 // indirect
	github.com/spf13/pflag v1.0.5 // indirect
	github.com/spf13/viper v1.18.2 // indirect
	github.com/subosito/gotenv v1.6.0 // indirect
	go.mongodb.org/mongo-driver v1.14.0 // indirect
	golang.org/x/crypto v0.26.0 // indirect
	golang.org/x/exp v0.0.0-20240222234643-814bf88cf225 // indirect
	golang.org/x/net v0.28.0 // indirect
	golang.org/x/sync v0.8.0 // indirect
	golang.org/x/text v0.17.0 // indirect
	gopkg.in/ini.v1 v1.67.0 // indirect
	gopkg.in/yaml.v3 v3.0.1 // indirect
)

replace github.com/ErdemOzgen/blackdagger => /repo
