module github.com/ErdemOzgen/blackdagger/verifharness

go 1.23

toolchain go1.23.5

require (
	github.com/ErdemOzgen/blackdagger v0.0.0
	github.com/robfig/cron/v3 v3.0.1
	golang.org/x/sys v0.30.0
	gopkg.in/yaml.v2 v2.4.0
	pgregory.net/rapid v1.3.0
)

require (
	github.com/docker/distribution v2.8.1+incompatible // indirect
	github.com/docker/docker v20.10.21+incompatible // indirect
	github.com/docker/go-connections v0.4.0 // indirect
	github.com/docker/go-units v0.5.0 // indirect
	github.com/go-chi/chi/v5 v5.0.8 // indirect
	github.com/go-resty/resty/v2 v2.7.0 // indirect
	github.com/gogo/protobuf v1.3.2 // indirect
	github.com/imdario/mergo v0.3.16 // indirect
	github.com/itchyny/gojq v0.12.12 // indirect
	github.com/itchyny/timefmt-go v0.1.5 // indirect
	github.com/mattn/go-shellwords v1.0.12 // indirect
	github.com/mitchellh/mapstructure v1.5.0 // indirect
	github.com/opencontainers/go-digest v1.0.0 // indirect
	github.com/opencontainers/image-spec v1.0.2 // indirect
	github.com/pkg/errors v0.9.1 // indirect
	github.com/samber/lo v1.38.1 // indirect
	github.com/samber/slog-multi v1.2.0 // indirect
	github.com/sirupsen/logrus v1.9.3 // indirect
	golang.org/x/crypto v0.26.0 // indirect
	golang.org/x/exp v0.0.0-20240222234643-814bf88cf225 // indirect
	golang.org/x/net v0.28.0 // indirect
)

replace github.com/ErdemOzgen/blackdagger => /repo
