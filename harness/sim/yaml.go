package sim

import (
	"strings"

	"gopkg.in/yaml.v2"
)

// YAML renders the case as a DAG definition whose steps and handlers run on
// the scripted executor (`executor: verif`). bigDesc > 0 gives the first step
// a description of that many bytes; params != "" adds a params line.
func YAML(c *Case, bigDesc int, params string) string {
	var steps []any
	for i, s := range c.Steps {
		m := yaml.MapSlice{{Key: "name", Value: s.Name}, {Key: "command", Value: "scripted"}, {Key: "executor", Value: ExecType}}
		if i == 0 && bigDesc > 0 {
			m = append(m, yaml.MapItem{Key: "description", Value: strings.Repeat("d", bigDesc)})
		}
		if len(s.Depends) > 0 {
			m = append(m, yaml.MapItem{Key: "depends", Value: s.Depends})
		}
		if s.ContFail || s.ContSkip {
			m = append(m, yaml.MapItem{Key: "continueOn", Value: map[string]bool{"failure": s.ContFail, "skipped": s.ContSkip}})
		}
		if cs := s.Conds(); len(cs) > 0 {
			var l []any
			for _, ce := range cs {
				l = append(l, map[string]string{"condition": ce[0], "expected": ce[1]})
			}
			m = append(m, yaml.MapItem{Key: "preconditions", Value: l})
		}
		if s.Output {
			m = append(m, yaml.MapItem{Key: "output", Value: "VERIF_OUT_" + s.Name})
		}
		if s.RetryLimit >= 0 {
			m = append(m, yaml.MapItem{Key: "retryPolicy", Value: map[string]int{"limit": s.RetryLimit, "intervalSec": s.RetryIvUS / 1000000}})
		}
		steps = append(steps, m)
	}
	def := yaml.MapSlice{}
	if params != "" {
		def = append(def, yaml.MapItem{Key: "params", Value: params})
	}
	def = append(def, yaml.MapItem{Key: "steps", Value: steps})
	if len(c.Handlers) > 0 {
		h := yaml.MapSlice{}
		for _, k := range HandlerNames {
			if c.Handlers[k] == nil {
				continue
			}
			key := map[string]string{"onSuccess": "success", "onFailure": "failure", "onCancel": "cancel", "onExit": "exit"}[k]
			h = append(h, yaml.MapItem{Key: key, Value: yaml.MapSlice{{Key: "command", Value: "scripted"}, {Key: "executor", Value: ExecType}}})
		}
		def = append(def, yaml.MapItem{Key: "handlerOn", Value: h})
	}
	b, _ := yaml.Marshal(def)
	return string(b)
}
