package sim

import (
	"fmt"
	"sort"
	"strings"

	"pgregory.net/rapid"
)

// StepSpec is the plain-data description of one step of a generated DAG.
type StepSpec struct {
	Name       string   `json:"name"`
	Depends    []string `json:"depends,omitempty"`
	ContFail   bool     `json:"contFail,omitempty"`
	ContSkip   bool     `json:"contSkip,omitempty"`
	Precond    int      `json:"precond,omitempty"`    // 0 none, 1 met, 2 unmet, 3 [unmet, met], 4 [met, unmet], 5 [met, met, met]
	RetryLimit int      `json:"retryLimit,omitempty"` // -1: no retryPolicy
	RetryIvUS  int      `json:"retryIvUS,omitempty"`  // retry interval, microseconds
	FailFirst  int      `json:"failFirst,omitempty"`  // fail first k attempts, -1 = always
	IgnoreSig  bool     `json:"ignoreSig,omitempty"`
	Hold       bool     `json:"hold,omitempty"`
	SetupFail  bool     `json:"setupFail,omitempty"` // stdout redirected into a missing directory
	Repeat     bool     `json:"repeat,omitempty"`
	RepeatIvUS int      `json:"repeatIvUS,omitempty"`
	SignalOn   string   `json:"signalOnStop,omitempty"`
	OutLen     int      `json:"outLen,omitempty"`
	ErrLen     int      `json:"errLen,omitempty"`
	Output     bool     `json:"output,omitempty"` // the step captures its stdout into an output variable
	// Redirect: 0 none, 1 stdout: file, 2 stderr: file, 3 both (two files), 4 both into the SAME file,
	// 5 stdout: /dev/null, 6 stdout and stderr: /dev/null, 7 stdout: /dev/full (every flush fails; only with GenOpts.DevFull)
	Redirect int `json:"redirect,omitempty"`
}

// PrecondUnmet tells whether the step's own preconditions (a list: ALL have to
// hold) are unmet.
func (s StepSpec) PrecondUnmet() bool { return s.Precond >= 2 && s.Precond <= 4 }

// Conds is the step's precondition list as (condition, expected) pairs.
func (s StepSpec) Conds() [][2]string {
	met, unmet := [2]string{"1", "1"}, [2]string{"0", "1"}
	switch s.Precond {
	case 1:
		return [][2]string{met}
	case 2:
		return [][2]string{unmet}
	case 3:
		return [][2]string{unmet, met}
	case 4:
		return [][2]string{met, unmet}
	case 5:
		return [][2]string{met, met, met}
	}
	return nil
}

// HandlerSpec configures one lifecycle handler.
type HandlerSpec struct {
	Fail bool `json:"fail,omitempty"`
}

// Decision is one schedule decision, consumed whenever >=1 attempt is blocked.
type Decision struct {
	Pick    int `json:"pick"`              // index (mod #blocked) of the first attempt to release
	Batch   int `json:"batch"`             // how many to release together (>=1)
	PreHalf int `json:"preHalf,omitempty"` // delay before releasing, in half polling periods
	Quiesce int `json:"quiesce,omitempty"` // first wait until the trace is stable for this many polling periods
}

// StopSpec places a stop request at a trace position.
type StopSpec struct {
	// Trigger: "before" (before Schedule is called), "event" (after the N-th
	// trace event), "create"/"enter"/"exit" (of attempt Attempt of step Step),
	// "end" (after the last step event, i.e. when nothing is open and every
	// decision has been consumed).
	Trigger string `json:"trigger"`
	N       int    `json:"n,omitempty"`
	Step    string `json:"step,omitempty"`
	Attempt int    `json:"attempt,omitempty"`
	DelayUS int    `json:"delayUS,omitempty"` // extra delay before the stop call
	// Gate: for "create" triggers the attempt's Run waits until the stop call
	// has returned — the stop then lands exactly between executor creation and
	// process start.
	Gate bool `json:"gate,omitempty"`
}

// Case is one generated scheduler-level case.
type Case struct {
	Steps     []StepSpec              `json:"steps"` // declaration order
	MaxActive int                     `json:"maxActive,omitempty"`
	DelayUS   int                     `json:"delayUS,omitempty"`
	PauseUS   int                     `json:"pauseUS"`
	Handlers  map[string]*HandlerSpec `json:"handlers,omitempty"` // keys: onSuccess onFailure onCancel onExit
	Done      int                     `json:"done,omitempty"`     // 0 nil channel, 1 prompt consumer, 2 slow consumer
	Sched     []Decision              `json:"sched,omitempty"`
	Stop      *StopSpec               `json:"stop,omitempty"`
	TimeoutP  int                     `json:"timeoutP,omitempty"` // DAG timeout in polling periods (0 none)
	Dry       bool                    `json:"dry,omitempty"`
	// KillAfterP: after the stop request, the harness escalates like the agent
	// does after maxCleanUpTime: Signal(SIGKILL) this many polling periods later (0: never).
	KillAfterP int `json:"killAfterP,omitempty"`
	// HoldOpen: release nothing until this many attempts are open at once (C15, k=0).
	HoldOpen int `json:"holdOpen,omitempty"`
}

// Step returns the spec with the given name.
func (c *Case) Step(name string) *StepSpec {
	for i := range c.Steps {
		if c.Steps[i].Name == name {
			return &c.Steps[i]
		}
	}
	return nil
}

// GenOpts steers the shared DagCase generator.
type GenOpts struct {
	MaxSteps       int
	MinWidth       int  // at least this many mutually independent roots (C15)
	Retries        bool // generate retry policies
	Preconds       bool
	SetupFails     bool
	LookalikeNames bool // sometimes two step names differ only in case or a trailing blank
	DevFull        bool // some retried steps write their stdout to /dev/full (the write-back of the step's output fails at every teardown)
	Redirects      bool // stdout:/stderr: files (paths inside the run's scratch directory: not for cases whose steps are re-used by a later run)
	Handlers       bool
	Stop           bool // maybe inject a stop
	Repeat         bool // maybe generate repeating steps (only with Stop)
	IgnoreSig      bool
	Timeout        bool
	ForceMax       bool // always draw a binding maxActiveRuns
	NoFail         bool // every step succeeds eventually
	SignalOn       bool
	AlwaysStop     bool
}

var stepNames = []string{"a", "b", "c", "d", "e", "f", "g", "h", "i", "j", "k", "l", "m", "n", "o", "p"}

// HandlerNames are the four lifecycle handler keys, in the order the scheduler runs them.
var HandlerNames = []string{"onSuccess", "onFailure", "onCancel", "onExit"}

// Gen draws a Case. Every random choice is a rapid draw.
func Gen(t *rapid.T, o GenOpts) Case {
	if o.MaxSteps == 0 {
		o.MaxSteps = 7
	}
	n := rapid.IntRange(1, o.MaxSteps).Draw(t, "n")
	if n < o.MinWidth {
		n = o.MinWidth
	}
	// topological skeleton: step i may depend on any j < i.
	topo := make([]StepSpec, n)
	shape := rapid.SampledFrom([]string{"random", "random", "chain", "fan", "diamond", "sparse"}).Draw(t, "shape")
	for i := 0; i < n; i++ {
		s := &topo[i]
		s.Name = stepNames[i]
		s.RetryLimit = -1
		for j := 0; j < i; j++ {
			if i < o.MinWidth {
				continue // the first MinWidth steps are independent roots
			}
			var edge bool
			switch shape {
			case "chain":
				edge = j == i-1
			case "fan":
				edge = j == 0 && rapid.IntRange(0, 3).Draw(t, "fanEdge") > 0
			case "diamond":
				edge = (j == 0 && i < n-1) || (i == n-1 && j > 0) || (n <= 2 && j == i-1)
			case "sparse":
				edge = rapid.IntRange(0, 4).Draw(t, "edge") == 0
			default:
				edge = rapid.Bool().Draw(t, "edge")
			}
			if edge {
				s.Depends = append(s.Depends, stepNames[j])
			}
		}
		// flags
		fl := rapid.IntRange(0, 5).Draw(t, "cont")
		s.ContFail = fl == 1 || fl == 3
		s.ContSkip = fl == 2 || fl == 3
		if o.Preconds {
			switch rapid.IntRange(0, 11).Draw(t, "precond") {
			case 0:
				s.Precond = 2
			case 1:
				s.Precond = 1
			case 2:
				s.Precond = 3
			case 3:
				s.Precond = 4
			case 4:
				s.Precond = 5
			}
		}
		if o.Retries && rapid.IntRange(0, 2).Draw(t, "hasRetry") == 0 {
			s.RetryLimit = rapid.IntRange(0, 3).Draw(t, "limit")
			s.RetryIvUS = rapid.SampledFrom([]int{0, 0, 100, 400, 1500}).Draw(t, "retryIv")
		}
		if !o.NoFail {
			lim := s.RetryLimit
			if lim < 0 {
				lim = 0
			}
			switch rapid.IntRange(0, 5).Draw(t, "outcome") {
			case 0, 1, 2:
				s.FailFirst = 0
			case 3:
				s.FailFirst = rapid.IntRange(0, lim+1).Draw(t, "k")
			case 4:
				s.FailFirst = -1
			case 5:
				s.FailFirst = lim // succeeds on the very last permitted attempt
			}
		} else if s.RetryLimit > 0 {
			s.FailFirst = rapid.IntRange(0, s.RetryLimit).Draw(t, "k")
		}
		if o.SetupFails && rapid.IntRange(0, 11).Draw(t, "setupFail") == 0 {
			s.SetupFail = true
		}
		if o.IgnoreSig && rapid.IntRange(0, 4).Draw(t, "ign") == 0 {
			s.IgnoreSig = true
		}
		if o.SignalOn && rapid.IntRange(0, 3).Draw(t, "sos") == 0 {
			s.SignalOn = rapid.SampledFrom([]string{"SIGINT", "SIGHUP", "SIGUSR1", "SIGKILL", "SIGTERM"}).Draw(t, "sosName")
		}
		s.OutLen = rapid.SampledFrom([]int{0, 0, 0, 7, 60, 4095, 4096, 4097, 6000}).Draw(t, "outLen")
		s.Output = rapid.IntRange(0, 3).Draw(t, "output") == 0
		if o.DevFull && !s.SetupFail && s.RetryLimit > 0 && s.FailFirst != 0 && rapid.IntRange(0, 3).Draw(t, "devFull") == 0 {
			s.Redirect = 7
			if s.OutLen == 0 {
				s.OutLen = 60
			}
		} else if o.Redirects && !s.SetupFail {
			s.Redirect = rapid.SampledFrom([]int{0, 0, 0, 0, 1, 2, 3, 4, 5, 6}).Draw(t, "redirect")
		}
		if s.OutLen > 0 && rapid.Bool().Draw(t, "hasErr") {
			s.ErrLen = rapid.SampledFrom([]int{5, 300, 4100}).Draw(t, "errLen")
		}
	}
	c := Case{}
	// declaration order is a generated permutation, independent of topology.
	perm := rapid.Permutation(topo).Draw(t, "declOrder")
	c.Steps = perm
	c.PauseUS = rapid.SampledFrom([]int{50, 200, 1000}).Draw(t, "pauseUS")
	if o.ForceMax {
		c.MaxActive = rapid.IntRange(1, n+1).Draw(t, "maxActive")
	} else {
		c.MaxActive = rapid.SampledFrom([]int{0, 0, 1, 2, 3, n + 1}).Draw(t, "maxActive")
	}
	c.DelayUS = rapid.SampledFrom([]int{0, 0, 0, 200}).Draw(t, "delayUS")
	c.Done = rapid.IntRange(0, 2).Draw(t, "done")
	for i := range c.Steps {
		// only steps nothing depends on write to /dev/full: what a failed
		// write-back of the output means for dependents that were launched
		// before it is not stated anywhere
		if c.Steps[i].Redirect == 7 {
			for _, o := range c.Steps {
				for _, d := range o.Depends {
					if d == c.Steps[i].Name {
						c.Steps[i].Redirect = 0
					}
				}
			}
		}
	}
	for _, s := range c.Steps {
		// a failing write-back of a step's output is only meaningful in the
		// configuration that exists in production (the agent always passes a
		// status channel): without one the scheduler's own clean-up path differs
		if s.Redirect == 7 && c.Done == 0 {
			c.Done = 1
		}
	}
	if o.Handlers {
		mask := rapid.IntRange(0, 15).Draw(t, "handlerMask")
		for i, h := range HandlerNames {
			if mask&(1<<i) != 0 {
				if c.Handlers == nil {
					c.Handlers = map[string]*HandlerSpec{}
				}
				c.Handlers[h] = &HandlerSpec{Fail: rapid.IntRange(0, 3).Draw(t, "hfail") == 0}
			}
		}
	}
	nd := rapid.IntRange(0, 2*n+2).Draw(t, "nDecisions")
	for i := 0; i < nd; i++ {
		c.Sched = append(c.Sched, Decision{
			Pick:    rapid.IntRange(0, 7).Draw(t, "pick"),
			Batch:   rapid.SampledFrom([]int{1, 1, 1, 2, 3}).Draw(t, "batch"),
			PreHalf: rapid.SampledFrom([]int{0, 0, 1, 4}).Draw(t, "preHalf"),
			Quiesce: rapid.SampledFrom([]int{0, 1, 1, 3}).Draw(t, "quiesce"),
		})
	}
	if o.Stop && (o.AlwaysStop || rapid.IntRange(0, 4).Draw(t, "hasStop") > 0) {
		c.Stop = genStop(t, &c, o)
		if o.IgnoreSig {
			c.KillAfterP = rapid.SampledFrom([]int{5, 20}).Draw(t, "killAfterP")
			for i := range c.Steps {
				if c.Steps[i].IgnoreSig && !c.Steps[i].Repeat && rapid.Bool().Draw(t, "holdIgnoring") {
					c.Steps[i].Hold = true // only SIGKILL ends it
				}
			}
		}
	}
	if o.Timeout && c.Stop == nil && rapid.IntRange(0, 3).Draw(t, "hasTimeout") == 0 {
		c.TimeoutP = rapid.IntRange(5, 30).Draw(t, "timeoutP")
		// some steps are never released by the harness
		for i := range c.Steps {
			if rapid.IntRange(0, 2).Draw(t, "hold") == 0 {
				c.Steps[i].Hold = true
			}
		}
	}
	if o.LookalikeNames && len(c.Steps) >= 2 && rapid.IntRange(0, 3).Draw(t, "lookalike") == 0 {
		// two steps whose names differ only in capitalisation or a surrounding
		// blank: distinct names all the same
		i := rapid.IntRange(0, len(c.Steps)-1).Draw(t, "lookA")
		j := rapid.IntRange(0, len(c.Steps)-2).Draw(t, "lookB")
		if j >= i {
			j++
		}
		nn := strings.ToUpper(c.Steps[i].Name)
		if rapid.IntRange(0, 2).Draw(t, "lookBlank") == 0 {
			nn = c.Steps[i].Name + " "
		}
		c.Rename(c.Steps[j].Name, nn)
	}
	return c
}

// Rename gives a step another name everywhere it is mentioned.
func (c *Case) Rename(old, nn string) {
	for k := range c.Steps {
		if c.Steps[k].Name == old {
			c.Steps[k].Name = nn
		}
		for d := range c.Steps[k].Depends {
			if c.Steps[k].Depends[d] == old {
				c.Steps[k].Depends[d] = nn
			}
		}
	}
	if c.Stop != nil && c.Stop.Step == old {
		c.Stop.Step = nn
	}
}

func genStop(t *rapid.T, c *Case, o GenOpts) *StopSpec {
	st := &StopSpec{}
	step := rapid.SampledFrom(c.Steps).Draw(t, "stopStep")
	st.Step = step.Name
	st.Attempt = 1
	if step.RetryLimit > 0 && step.FailFirst != 0 {
		st.Attempt = rapid.IntRange(1, 2).Draw(t, "stopAttempt")
	}
	switch rapid.IntRange(0, 7).Draw(t, "stopKind") {
	case 0:
		st.Trigger = "before"
	case 1:
		st.Trigger = "event"
		st.N = rapid.IntRange(0, 6*len(c.Steps)).Draw(t, "stopN")
	case 2:
		st.Trigger = "create"
		st.Gate = rapid.Bool().Draw(t, "gate")
	case 3, 4:
		st.Trigger = "enter"
	case 5, 6:
		st.Trigger = "exit"
		// with a retry interval or repeat interval this lands in the wait
		st.DelayUS = rapid.SampledFrom([]int{0, 50, 300}).Draw(t, "stopDelay")
	case 7:
		st.Trigger = "end"
	}
	if o.Repeat && rapid.IntRange(0, 3).Draw(t, "mkRepeat") == 0 {
		s := c.Step(st.Step)
		s.Repeat = true
		s.RepeatIvUS = rapid.SampledFrom([]int{0, 200, 800, 3000}).Draw(t, "repIv")
		s.FailFirst = 0
		s.RetryLimit = -1
		if st.Trigger == "create" || st.Trigger == "enter" || st.Trigger == "exit" {
			st.Attempt = rapid.IntRange(1, 3).Draw(t, "repAttempt")
		}
	}
	return st
}

// Key returns a canonical string for the graph+flags+scripts part of the case
// (used with the realised completion order for distinctness).
func (c *Case) Key() string {
	ss := append([]StepSpec(nil), c.Steps...)
	s := fmt.Sprintf("%v|%d|%d|%d|%v", ss, c.MaxActive, c.DelayUS, c.Done, c.TimeoutP)
	hs := make([]string, 0, len(c.Handlers))
	for k, v := range c.Handlers {
		hs = append(hs, fmt.Sprintf("%s:%v", k, v.Fail))
	}
	sort.Strings(hs)
	if c.Stop != nil {
		s += fmt.Sprintf("|stop:%v", *c.Stop)
	}
	return s + fmt.Sprint(hs)
}

// ShapeLabels classifies the graph for the evidence histogram.
func (c *Case) ShapeLabels() []string {
	n := len(c.Steps)
	deps := 0
	maxIn := 0
	outdeg := map[string]int{}
	for _, s := range c.Steps {
		deps += len(s.Depends)
		if len(s.Depends) > maxIn {
			maxIn = len(s.Depends)
		}
		for _, d := range s.Depends {
			outdeg[d]++
		}
	}
	maxOut := 0
	for _, v := range outdeg {
		if v > maxOut {
			maxOut = v
		}
	}
	depth := c.Depth()
	var l []string
	switch {
	case n == 1:
		l = append(l, "shape:single")
	case deps == 0:
		l = append(l, "shape:disconnected")
	case deps == n-1 && depth == n:
		l = append(l, "shape:chain")
	}
	if maxIn >= 2 {
		l = append(l, "shape:fan-in")
	}
	if maxOut >= 2 {
		l = append(l, "shape:fan-out")
	}
	if maxIn >= 2 && maxOut >= 2 {
		l = append(l, "shape:diamond-like")
	}
	if depth >= 4 {
		l = append(l, "shape:deep")
	}
	return l
}

// Depth is the number of levels of the graph.
func (c *Case) Depth() int {
	memo := map[string]int{}
	var d func(string) int
	d = func(n string) int {
		if v, ok := memo[n]; ok {
			return v
		}
		memo[n] = 1
		best := 1
		if s := c.Step(n); s != nil {
			for _, p := range s.Depends {
				if x := d(p) + 1; x > best {
					best = x
				}
			}
		}
		memo[n] = best
		return best
	}
	m := 0
	for _, s := range c.Steps {
		if x := d(s.Name); x > m {
			m = x
		}
	}
	return m
}
