package sim

import (
	"fmt"
	"sort"
)

// StepTrace is the per-step view of the trace.
type StepTrace struct {
	Creates []int // seq of create events
	Enters  []int // seq of enter events (attempt i at index i-1 is not guaranteed; use EnterAttempt)
	Exits   []int
	Refused []int
	Kills   []Event
	// by attempt index
	EnterOf map[int]int
	ExitOf  map[int]int
	ExitErr map[int]string
}

// Analyze splits the trace by step.
func Analyze(tr []Event) map[string]*StepTrace {
	m := map[string]*StepTrace{}
	get := func(s string) *StepTrace {
		st := m[s]
		if st == nil {
			st = &StepTrace{EnterOf: map[int]int{}, ExitOf: map[int]int{}, ExitErr: map[int]string{}}
			m[s] = st
		}
		return st
	}
	for _, ev := range tr {
		if ev.Step == "" {
			continue
		}
		st := get(ev.Step)
		switch ev.Kind {
		case EvCreate:
			st.Creates = append(st.Creates, ev.Seq)
		case EvEnter:
			st.Enters = append(st.Enters, ev.Seq)
			st.EnterOf[ev.Attempt] = ev.Seq
		case EvExit:
			st.Exits = append(st.Exits, ev.Seq)
			st.ExitOf[ev.Attempt] = ev.Seq
			st.ExitErr[ev.Attempt] = ev.Err
		case EvRefused:
			st.Refused = append(st.Refused, ev.Seq)
		case EvKill:
			st.Kills = append(st.Kills, ev)
		}
	}
	return m
}

// SeqOf returns the sequence number of the first event of the given kind, or -1.
func SeqOf(tr []Event, kind string) int {
	for _, ev := range tr {
		if ev.Kind == kind {
			return ev.Seq
		}
	}
	return -1
}

// Executed returns how many times the step's command was started.
func Executed(an map[string]*StepTrace, step string) int {
	if st := an[step]; st != nil {
		return len(st.Enters)
	}
	return 0
}

// MaxOverlap is the high-water mark of simultaneously open Run() calls among
// the DAG's steps (handlers excluded).
func MaxOverlap(tr []Event) int {
	open, max := 0, 0
	for _, ev := range tr {
		if IsHandler(ev.Step) {
			continue
		}
		switch ev.Kind {
		case EvEnter:
			open++
			if open > max {
				max = open
			}
		case EvExit:
			open--
		}
	}
	return max
}

// ---------------------------------------------------------------- C01

// JudgeC01 checks the ordering invariant on the trace and final states.
// It returns "" when the invariant holds.
func JudgeC01(c *Case, r *Result) string { return JudgeC01Kept(c, r, nil) }

// JudgeC01Kept is JudgeC01 for a retry run: steps in kept carry a recorded
// result from the run being retried and are legitimately never executed.
func JudgeC01Kept(c *Case, r *Result, kept map[string]bool) string {
	an := Analyze(r.Trace)
	// "has finished its last attempt": what a dependency looked like when the
	// step was launched is what it looks like at the end of the run. (A
	// dependency that is still to be retried — also one whose attempt leaves no
	// executor event, because its set-up fails — shows up here.)
	for _, ds := range r.DepSnaps {
		f, ok := r.Final[ds.Dep]
		if !ok {
			continue
		}
		if f.Status != ds.Status || f.RetryCount != ds.RetryCount {
			return fmt.Sprintf("step %q was launched (seq %d) when its dependency %q was %q with %d retries used; the dependency went on after that and ended %q with %d retries used: it had not finished its last attempt", ds.Step, ds.Seq, ds.Dep, ds.Status, ds.RetryCount, f.Status, f.RetryCount)
		}
	}
	for _, s := range c.Steps {
		st := an[s.Name]
		if st == nil {
			continue
		}
		for _, p := range st.Enters {
			for _, dn := range s.Depends {
				d := c.Step(dn)
				dt := an[dn]
				if dt != nil {
					for att, en := range dt.EnterOf {
						if en < p {
							ex, ok := dt.ExitOf[att]
							if !ok || ex > p {
								return fmt.Sprintf("step %q started (seq %d) while attempt %d of its dependency %q was still executing (entered seq %d, exit %v)", s.Name, p, att, dn, en, exitStr(ok, ex))
							}
						} else {
							return fmt.Sprintf("step %q started (seq %d) before attempt %d of its dependency %q started (seq %d): dependency had not finished its last attempt", s.Name, p, att, dn, en)
						}
					}
				}
				fs := r.Final[dn].Status
				switch {
				case fs == "finished":
				case fs == "failed" && d.ContFail:
				case fs == "skipped" && d.ContSkip:
				default:
					return fmt.Sprintf("step %q was executed although its dependency %q ended %q (continueOn failure=%v skipped=%v)", s.Name, dn, fs, d.ContFail, d.ContSkip)
				}
				if fs == "finished" && !kept[dn] && (dt == nil || len(dt.Enters) == 0) {
					return fmt.Sprintf("step %q was executed after dependency %q that is reported finished but never executed", s.Name, dn)
				}
			}
		}
	}
	return ""
}

func exitStr(ok bool, ex int) string {
	if !ok {
		return "never"
	}
	return fmt.Sprintf("seq %d", ex)
}

// NontrivialC01: >=1 executed step with >=1 dependency and (two attempts
// overlapped, or a dependency was retried, or a dependency ended
// failed/skipped with continueOn).
func NontrivialC01(c *Case, r *Result) bool {
	an := Analyze(r.Trace)
	executedWithDep := false
	interesting := MaxOverlap(r.Trace) >= 2
	for _, s := range c.Steps {
		if Executed(an, s.Name) == 0 || len(s.Depends) == 0 {
			continue
		}
		executedWithDep = true
		for _, dn := range s.Depends {
			if Executed(an, dn) >= 2 {
				interesting = true
			}
			fs := r.Final[dn].Status
			if fs == "failed" || fs == "skipped" {
				interesting = true
			}
		}
	}
	return executedWithDep && interesting
}

// ---------------------------------------------------------------- C02 / C03

// Expected is what the reference semantics dictates for one step given the
// final states of its dependencies.
type Expected struct {
	Blocked     bool
	FailBlocker bool
	SkipBlocker bool
	Runnable    bool   // must execute
	State       string // expected final state when not blocked
	Attempts    int    // expected number of executions when runnable
}

// Expect computes the local expectation for step s from the final states of its deps.
func Expect(c *Case, r *Result, s *StepSpec) Expected {
	var e Expected
	for _, dn := range s.Depends {
		d := c.Step(dn)
		switch r.Final[dn].Status {
		case "canceled":
			e.FailBlocker = true
		case "failed":
			if !d.ContFail {
				e.FailBlocker = true
			}
		case "skipped":
			if !d.ContSkip {
				e.SkipBlocker = true
			}
		}
	}
	e.Blocked = e.FailBlocker || e.SkipBlocker
	if e.Blocked {
		return e
	}
	if s.PrecondUnmet() {
		e.State = "skipped"
		return e
	}
	if s.SetupFail {
		e.State = "failed"
		return e
	}
	e.Runnable = true
	lim := s.RetryLimit
	if lim < 0 {
		lim = 0
	}
	k := s.FailFirst
	if k < 0 || k > lim {
		e.State = "failed"
		e.Attempts = lim + 1
	} else {
		e.State = "finished"
		e.Attempts = k + 1
	}
	return e
}

// JudgeC02 checks local consistency of every step's final state with the final
// states of its dependencies (unstopped runs only).
func JudgeC02(c *Case, r *Result) string {
	an := Analyze(r.Trace)
	for i := range c.Steps {
		s := &c.Steps[i]
		f := r.Final[s.Name]
		ex := Executed(an, s.Name)
		if f.Status == "not started" || f.Status == "running" {
			return fmt.Sprintf("step %q is reported %q after an unstopped run ended", s.Name, f.Status)
		}
		e := Expect(c, r, s)
		if e.Blocked {
			if ex != 0 {
				return fmt.Sprintf("step %q was executed %d time(s) although it is downstream of a blocking dependency (failBlocker=%v skipBlocker=%v)", s.Name, ex, e.FailBlocker, e.SkipBlocker)
			}
			switch f.Status {
			case "canceled":
				if !e.FailBlocker {
					return fmt.Sprintf("step %q reported canceled but none of its dependencies failed/canceled without continueOn.failure", s.Name)
				}
			case "skipped":
				if !e.SkipBlocker {
					return fmt.Sprintf("step %q reported skipped although its own precondition was not evaluated and no dependency was skipped without continueOn.skipped", s.Name)
				}
			default:
				return fmt.Sprintf("step %q is downstream of a blocking dependency but is reported %q", s.Name, f.Status)
			}
			continue
		}
		if !e.Runnable {
			if ex != 0 {
				return fmt.Sprintf("step %q must not execute (precondition unmet / set-up fails) but was executed %d time(s)", s.Name, ex)
			}
			if f.Status != e.State {
				return fmt.Sprintf("step %q expected %q (precond=%d setupFail=%v), reported %q", s.Name, e.State, s.Precond, s.SetupFail, f.Status)
			}
			continue
		}
		if ex < 1 {
			return fmt.Sprintf("step %q has every dependency letting it proceed but was never executed (reported %q)", s.Name, f.Status)
		}
		if f.Status != e.State {
			return fmt.Sprintf("step %q: outcome script (failFirst=%d retryLimit=%d) dictates %q, reported %q (err=%q, executed %d)", s.Name, s.FailFirst, s.RetryLimit, e.State, f.Status, f.Err, ex)
		}
	}
	return ""
}

// NontrivialC02: >=1 step with a blocker and >=1 executed step downstream of a
// continueOn-licensed failure/skip, or a join with mixed parent states.
func NontrivialC02(c *Case, r *Result) bool {
	an := Analyze(r.Trace)
	blocked, licensed, mixed := false, false, false
	for i := range c.Steps {
		s := &c.Steps[i]
		e := Expect(c, r, s)
		if e.Blocked {
			blocked = true
		}
		states := map[string]bool{}
		for _, dn := range s.Depends {
			fs := r.Final[dn].Status
			states[fs] = true
			if (fs == "failed" || fs == "skipped") && Executed(an, s.Name) > 0 {
				licensed = true
			}
		}
		if len(s.Depends) >= 2 && len(states) >= 2 {
			mixed = true
		}
	}
	return (blocked && licensed) || mixed
}

// JudgeC03 checks multiplicity: exact attempt counts, non-overlap of a step's
// own attempts, recorded retry count, and no re-entry after success.
func JudgeC03(c *Case, r *Result) string {
	an := Analyze(r.Trace)
	for i := range c.Steps {
		s := &c.Steps[i]
		st := an[s.Name]
		ex := Executed(an, s.Name)
		e := Expect(c, r, s)
		if !e.Runnable {
			if ex != 0 {
				return fmt.Sprintf("step %q is not runnable (blocked=%v precond=%d) but was executed %d time(s)", s.Name, e.Blocked, s.Precond, ex)
			}
			continue
		}
		if s.Redirect == 7 {
			// stdout goes to /dev/full: whether an attempt fails is decided by when
			// the buffered output hits the device, not by the script alone. The
			// retry clause is judged on the attempts' own results: re-executed
			// until an attempt succeeds or `limit` extra attempts have been used.
			lim := s.RetryLimit
			if lim < 0 {
				lim = 0
			}
			lastErr := ""
			if st != nil {
				lastErr = st.ExitErr[ex]
			}
			if ex > lim+1 {
				return fmt.Sprintf("step %q (stdout: /dev/full) executed %d time(s) with retryPolicy.limit %d", s.Name, ex, lim)
			}
			if ex >= 1 && lastErr != "" && ex < lim+1 {
				return fmt.Sprintf("step %q (stdout: /dev/full): attempt %d failed (%s) and %d of %d extra attempts were left, but the step was not executed again", s.Name, ex, lastErr, lim+1-ex, lim)
			}
		} else if ex != e.Attempts {
			return fmt.Sprintf("step %q executed %d time(s), expected exactly %d (failFirst=%d retryLimit=%d)", s.Name, ex, e.Attempts, s.FailFirst, s.RetryLimit)
		}
		// attempts of one step never overlap; nothing after a success
		type iv struct{ en, ex, att int }
		var ivs []iv
		for att, en := range st.EnterOf {
			x, ok := st.ExitOf[att]
			if !ok {
				return fmt.Sprintf("step %q attempt %d never exited although the run ended", s.Name, att)
			}
			ivs = append(ivs, iv{en, x, att})
		}
		sort.Slice(ivs, func(a, b int) bool { return ivs[a].en < ivs[b].en })
		for j := 1; j < len(ivs); j++ {
			if ivs[j].en < ivs[j-1].ex {
				return fmt.Sprintf("step %q: attempts %d and %d overlap", s.Name, ivs[j-1].att, ivs[j].att)
			}
			if st.ExitErr[ivs[j-1].att] == "" {
				return fmt.Sprintf("step %q: attempt %d succeeded but the step was executed again", s.Name, ivs[j-1].att)
			}
		}
		if got := r.Final[s.Name].RetryCount; got != ex-1 {
			return fmt.Sprintf("step %q: recorded retry count %d, extra attempts actually made %d", s.Name, got, ex-1)
		}
	}
	return ""
}

// NontrivialC03: some step with a retry policy really retried while another
// step was running.
func NontrivialC03(c *Case, r *Result) bool {
	an := Analyze(r.Trace)
	retried := false
	for _, s := range c.Steps {
		if s.RetryLimit >= 1 && Executed(an, s.Name) >= 2 {
			retried = true
		}
	}
	return retried && MaxOverlap(r.Trace) >= 2
}

// ---------------------------------------------------------------- C15

// JudgeC15 checks the concurrency bound at every trace position.
func JudgeC15(c *Case, r *Result) string {
	if c.MaxActive <= 0 {
		return ""
	}
	if m := MaxOverlap(r.Trace); m > c.MaxActive {
		return fmt.Sprintf("maxActiveRuns=%d but %d step commands were executing at once", c.MaxActive, m)
	}
	// "a step waiting out its retry interval counts as executing": after a failed
	// attempt that is followed by another one the step holds its slot for the
	// retry interval. The window used here starts at the exit event and lasts
	// exactly the interval — the real wait begins a little later and is not
	// shorter — so a command of another step that starts inside the window while
	// the slots are full was started in excess of the limit.
	type wait struct {
		step     string
		from, to int64
	}
	var waits []wait
	an := Analyze(r.Trace)
	us := map[int]int64{}
	for _, ev := range r.Trace {
		us[ev.Seq] = ev.US
	}
	for _, s := range c.Steps {
		st := an[s.Name]
		if st == nil || s.RetryIvUS <= 0 {
			continue
		}
		for att, ex := range st.ExitOf {
			if _, again := st.EnterOf[att+1]; again && st.ExitErr[att] != "" {
				waits = append(waits, wait{s.Name, us[ex], us[ex] + int64(s.RetryIvUS)})
			}
		}
	}
	if len(waits) == 0 {
		return ""
	}
	open := map[string]bool{}
	for _, ev := range r.Trace {
		if IsHandler(ev.Step) || ev.Step == "" {
			continue
		}
		switch ev.Kind {
		case EvExit:
			delete(open, ev.Step)
		case EvEnter:
			open[ev.Step] = true
			n := len(open)
			var waiting []string
			for _, w := range waits {
				if w.step != ev.Step && !open[w.step] && ev.US > w.from && ev.US < w.to {
					n++
					waiting = append(waiting, w.step)
				}
			}
			if len(waiting) > 0 && n > c.MaxActive {
				return fmt.Sprintf("maxActiveRuns=%d: the command of step %q was started (seq %d) while %d command(s) were executing and step(s) %v were waiting out their retry interval — a step waiting out its retry interval counts as executing", c.MaxActive, ev.Step, ev.Seq, len(open)-1, waiting)
			}
		}
	}
	return ""
}

// ---------------------------------------------------------------- C04

// ExpectedOutcomeNoStop is the outcome the property dictates for a run that
// was not stopped.
func ExpectedOutcomeNoStop(c *Case, r *Result) string {
	for _, s := range c.Steps {
		fs := r.Final[s.Name].Status
		if fs != "finished" && fs != "skipped" {
			return "failed"
		}
	}
	return "finished"
}

// LastStepEvent is the seq of the last enter/exit/refused event of a non-handler step (-1 if none).
func LastStepEvent(tr []Event) int {
	last := -1
	for _, ev := range tr {
		if ev.Step != "" && !IsHandler(ev.Step) && (ev.Kind == EvEnter || ev.Kind == EvExit || ev.Kind == EvRefused) {
			last = ev.Seq
		}
	}
	return last
}

// HandlerForOutcome maps a run outcome to its lifecycle handler.
func HandlerForOutcome(outcome string) string {
	switch outcome {
	case "finished":
		return "onSuccess"
	case "failed":
		return "onFailure"
	case "canceled":
		return "onCancel"
	}
	return ""
}

// JudgeHandlers checks handler selection, multiplicity and order for the
// given accepted outcomes (one, or two when ambiguous-by-spec).
func JudgeHandlers(c *Case, r *Result, accepted []string) string {
	an := Analyze(r.Trace)
	okOutcome := ""
	for _, o := range accepted {
		if r.Status == o {
			okOutcome = o
		}
	}
	if okOutcome == "" {
		return fmt.Sprintf("run reported %q, expected %v", r.Status, accepted)
	}
	last := LastStepEvent(r.Trace)
	match := HandlerForOutcome(okOutcome)
	for _, h := range HandlerNames {
		ht := an[h]
		n := 0
		if ht != nil {
			n = len(ht.Enters)
			for _, en := range ht.Enters {
				if en < last {
					return fmt.Sprintf("handler %s started (seq %d) before the last step event (seq %d)", h, en, last)
				}
			}
		}
		configured := c.Handlers[h] != nil
		want := 0
		if configured && (h == match || h == "onExit") {
			want = 1
		}
		if n != want {
			return fmt.Sprintf("handler %s executed %d time(s), expected %d (outcome %s, configured=%v)", h, n, want, okOutcome, configured)
		}
	}
	if c.Handlers["onExit"] != nil && match != "" && c.Handlers[match] != nil {
		me := an[match]
		xe := an["onExit"]
		if me != nil && xe != nil && len(me.Exits) == 1 && len(xe.Enters) == 1 {
			if xe.Enters[0] < me.Exits[0] {
				return fmt.Sprintf("onExit started (seq %d) before %s finished (seq %d)", xe.Enters[0], match, me.Exits[0])
			}
		} else {
			return fmt.Sprintf("handler %s/onExit did not both run to completion", match)
		}
	}
	return ""
}
