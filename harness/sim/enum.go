package sim

// Small-scope exhaustive generator: every DAG on n <= 3 named steps (edges only
// from topologically earlier to later steps, every declaration order) x per
// step {continueOn: none / failure / skipped / both} x {succeeds / fails /
// own precondition unmet}, each under a few canonical completion schedules.

func permutations(n int) [][]int {
	if n == 1 {
		return [][]int{{0}}
	}
	var out [][]int
	for _, p := range permutations(n - 1) {
		for pos := 0; pos <= len(p); pos++ {
			q := append(append(append([]int{}, p[:pos]...), n-1), p[pos:]...)
			out = append(out, q)
		}
	}
	return out
}

// EnumCount returns the number of cases Enumerate(n) yields per schedule.
func EnumCount(n int) int {
	edges := n * (n - 1) / 2
	c := 1 << edges
	for _, x := range permutations(n) {
		_ = x
	}
	c *= len(permutations(n))
	for i := 0; i < n; i++ {
		c *= 12
	}
	return c
}

// Enumerate calls fn(index, case) for every member of the space for n steps.
// The schedules are: 0 FIFO one by one, 1 LIFO one by one, 2 release everything
// that is blocked at once.
func Enumerate(n int, sched int, fn func(i int, c Case)) {
	edges := n * (n - 1) / 2
	idx := 0
	perms := permutations(n)
	flagCount := 1
	for i := 0; i < n; i++ {
		flagCount *= 12
	}
	for em := 0; em < 1<<edges; em++ {
		for _, perm := range perms {
			for fl := 0; fl < flagCount; fl++ {
				topo := make([]StepSpec, n)
				e := 0
				f := fl
				for i := 0; i < n; i++ {
					s := &topo[i]
					s.Name = stepNames[i]
					s.RetryLimit = -1
					for j := 0; j < i; j++ {
						if em&(1<<e) != 0 {
							s.Depends = append(s.Depends, stepNames[j])
						}
						e++
					}
					v := f % 12
					f /= 12
					cont, outcome := v%4, v/4
					s.ContFail = cont == 1 || cont == 3
					s.ContSkip = cont == 2 || cont == 3
					switch outcome {
					case 1:
						s.FailFirst = -1
					case 2:
						s.Precond = 2
					}
				}
				c := Case{PauseUS: 50}
				for _, p := range perm {
					c.Steps = append(c.Steps, topo[p])
				}
				switch sched {
				case 1:
					for k := 0; k < 2*n; k++ {
						c.Sched = append(c.Sched, Decision{Pick: 7, Batch: 1, Quiesce: 1})
					}
				case 2:
					for k := 0; k < 2*n; k++ {
						c.Sched = append(c.Sched, Decision{Pick: 0, Batch: 3, Quiesce: 1})
					}
				default:
					for k := 0; k < 2*n; k++ {
						c.Sched = append(c.Sched, Decision{Pick: 0, Batch: 1, Quiesce: 1})
					}
				}
				fn(idx, c)
				idx++
			}
		}
	}
}
