// Package sim is the "simexec" engine: a scripted, in-process executor that is
// registered with the real executor registry, a totally ordered trace of what
// every attempt did, and a driver that owns when each blocked attempt is
// released. The real scheduler (internal/dag/scheduler) runs unmodified on top
// of it.
package sim

import (
	"context"
	"errors"
	"fmt"
	"io"
	"os"
	"strings"
	"sync"
	"sync/atomic"
	"syscall"
	"time"

	"github.com/ErdemOzgen/blackdagger/internal/dag"
	"github.com/ErdemOzgen/blackdagger/internal/dag/executor"
)

// ExecType is the executor type name the harness registers.
const ExecType = "verif"

// Event kinds.
const (
	EvCreate   = "create"    // executor created for an attempt
	EvEnter    = "enter"     // Run() entered: the step's "command" starts
	EvExit     = "exit"      // Run() about to return
	EvKill     = "kill"      // Kill(sig) called on the attempt
	EvRefused  = "refused"   // Run() found its context already expired: nothing was started
	EvStopCall = "stop-call" // harness issues the stop request
	EvStopRet  = "stop-ret"  // stop request call returned
	EvKillCall = "kill-call" // harness escalates with SIGKILL (as the agent does after maxCleanUpTime)
	EvKillRet  = "kill-ret"
)

// Event is one entry of the totally ordered trace.
type Event struct {
	Seq     int    `json:"seq"`
	Kind    string `json:"kind"`
	Step    string `json:"step,omitempty"`
	Attempt int    `json:"attempt,omitempty"` // 1-based per step
	Sig     string `json:"sig,omitempty"`
	Err     string `json:"err,omitempty"`
	Started bool   `json:"started,omitempty"` // for kill: whether Run had been entered
	US      int64  `json:"us"`                // microseconds since world start (informational only)
}

// Script says how the attempts of one step behave.
type Script struct {
	FailFirst int  // fail the first k attempts; <0 means always fail
	IgnoreSig bool // attempts ignore every signal except SIGKILL
	Hold      bool // the harness never releases attempts of this step (timeout cases)
	OutLen    int  // bytes written to stdout by each attempt
	ErrLen    int  // bytes written to stderr by each attempt
	SelfExit  bool // attempt does not block at all
}

// World is the ground truth of one case.
type World struct {
	mu       sync.Mutex
	start    time.Time
	events   []Event
	scripts  map[string]Script
	attempts map[string]int
	blocked  []*Attempt
	all      []*Attempt
	hooks    []Hook
	nEvents  atomic.Int64
	// holdActive: attempts of Hold scripts are withheld from release only
	// while this is set (from the start in timeout cases, from the stop call
	// on in stop cases) — otherwise a held attempt could keep the stop's own
	// trigger from ever being reached.
	holdActive atomic.Bool
}

// SetHoldActive switches the withholding of Hold attempts on or off.
func (w *World) SetHoldActive(v bool) { w.holdActive.Store(v) }

// Hook lets the harness act at an exact trace position. It is called with the
// world lock released, on the goroutine that produced the event.
type Hook func(w *World, ev Event, a *Attempt)

var current atomic.Pointer[World]

var registerOnce sync.Once

// NewWorld creates the world for one case and makes it the target of the
// scripted executor. Cases in one process are sequential.
func NewWorld(scripts map[string]Script) *World {
	registerOnce.Do(func() { executor.Register(ExecType, create) })
	w := &World{start: time.Now(), scripts: scripts, attempts: map[string]int{}}
	current.Store(w)
	return w
}

// AddHook registers a hook (before the run starts).
func (w *World) AddHook(h Hook) { w.hooks = append(w.hooks, h) }

// Record appends a harness event (stop-call, stop-ret, …).
func (w *World) Record(kind string) Event { return w.record(Event{Kind: kind}, nil) }

func (w *World) record(ev Event, a *Attempt) Event {
	w.mu.Lock()
	ev = w.appendLocked(ev)
	w.mu.Unlock()
	w.runHooks(ev, a)
	return ev
}

// appendLocked appends an event; w.mu must be held. State flags of an attempt
// (entered / exited / killedEarly) change in the same critical section as the
// event that reports them, so the trace order is the real order.
func (w *World) appendLocked(ev Event) Event {
	ev.Seq = len(w.events)
	ev.US = time.Since(w.start).Microseconds()
	w.events = append(w.events, ev)
	w.nEvents.Store(int64(len(w.events)))
	return ev
}

func (w *World) runHooks(ev Event, a *Attempt) {
	for _, h := range w.hooks {
		h(w, ev, a)
	}
}

// NumEvents returns the current trace length.
func (w *World) NumEvents() int { return int(w.nEvents.Load()) }

// Trace returns a copy of the trace.
func (w *World) Trace() []Event {
	w.mu.Lock()
	defer w.mu.Unlock()
	return append([]Event(nil), w.events...)
}

// Blocked returns the attempts currently blocked in Run and not yet released,
// in the order in which they blocked.
func (w *World) Blocked() []*Attempt {
	w.mu.Lock()
	defer w.mu.Unlock()
	out := make([]*Attempt, 0, len(w.blocked))
	for _, a := range w.blocked {
		if !a.script.Hold || !w.holdActive.Load() {
			out = append(out, a)
		}
	}
	return out
}

// HeldCount returns the number of blocked attempts the harness never releases.
func (w *World) HeldCount() int {
	w.mu.Lock()
	defer w.mu.Unlock()
	n := 0
	for _, a := range w.blocked {
		if a.script.Hold && w.holdActive.Load() {
			n++
		}
	}
	return n
}

// OpenCount returns the number of attempts inside Run (entered, not exited).
func (w *World) OpenCount() int {
	w.mu.Lock()
	defer w.mu.Unlock()
	n := 0
	for _, a := range w.all {
		if a.entered && !a.exited {
			n++
		}
	}
	return n
}

// Release lets a blocked attempt finish.
func (w *World) Release(a *Attempt) {
	w.mu.Lock()
	for i, b := range w.blocked {
		if b == a {
			w.blocked = append(w.blocked[:i], w.blocked[i+1:]...)
			break
		}
	}
	w.mu.Unlock()
	a.releaseOnce.Do(func() { close(a.release) })
}

// ReleaseAll releases everything that is or will be blocked (clean-up after a
// verdict has been reached, so leaked goroutines end).
func (w *World) ReleaseAll() {
	w.mu.Lock()
	all := append([]*Attempt(nil), w.all...)
	w.blocked = nil
	for k, s := range w.scripts {
		s.SelfExit = true
		s.Hold = false
		w.scripts[k] = s
	}
	w.mu.Unlock()
	for _, a := range all {
		a.releaseOnce.Do(func() { close(a.release) })
	}
}

// Attempt is one executor instance = one attempt (or repeat iteration) of a step.
type Attempt struct {
	w      *World
	Step   string
	Index  int // 1-based
	ctx    context.Context
	script Script
	stdout io.Writer
	stderr io.Writer

	release     chan struct{}
	releaseOnce sync.Once
	sigCh       chan os.Signal
	gate        chan struct{} // if non-nil Run waits for it before "starting the process"

	entered     bool
	exited      bool
	killedEarly bool
}

// SetGate makes the attempt's Run wait for ch before it records its start
// (used to place a stop exactly between executor creation and process start).
func (a *Attempt) SetGate(ch chan struct{}) { a.gate = ch }

func create(ctx context.Context, step dag.Step) (executor.Executor, error) {
	w := current.Load()
	if w == nil {
		return nil, errors.New("sim: no world")
	}
	w.mu.Lock()
	w.attempts[step.Name]++
	idx := w.attempts[step.Name]
	sc := w.scripts[step.Name]
	a := &Attempt{
		w: w, Step: step.Name, Index: idx, ctx: ctx, script: sc,
		release: make(chan struct{}), sigCh: make(chan os.Signal, 8),
	}
	w.all = append(w.all, a)
	w.mu.Unlock()
	w.record(Event{Kind: EvCreate, Step: a.Step, Attempt: idx}, a)
	return a, nil
}

func (a *Attempt) SetStdout(out io.Writer) { a.stdout = out }
func (a *Attempt) SetStderr(out io.Writer) { a.stderr = out }

// Kill mirrors commandExecutor.Kill: before the "process" exists nothing can
// be signalled; the kill is remembered and Run then refuses to start (this is
// the contract of the real command executor since the "killed before start"
// fix; before it the kill was simply lost).
func (a *Attempt) Kill(sig os.Signal) error {
	a.w.mu.Lock()
	started := a.entered && !a.exited
	if !a.entered {
		a.killedEarly = true
	}
	ev := a.w.appendLocked(Event{Kind: EvKill, Step: a.Step, Attempt: a.Index, Sig: sigName(sig), Started: started})
	a.w.mu.Unlock()
	a.w.runHooks(ev, a)
	if !started {
		return nil
	}
	if a.script.IgnoreSig && sig != syscall.SIGKILL {
		return nil
	}
	select {
	case a.sigCh <- sig:
	default:
	}
	return nil
}

func sigName(sig os.Signal) string {
	if s, ok := sig.(syscall.Signal); ok {
		switch s {
		case syscall.SIGTERM:
			return "SIGTERM"
		case syscall.SIGKILL:
			return "SIGKILL"
		case syscall.SIGINT:
			return "SIGINT"
		case syscall.SIGHUP:
			return "SIGHUP"
		case syscall.SIGUSR1:
			return "SIGUSR1"
		case syscall.SIGUSR2:
			return "SIGUSR2"
		case syscall.SIGQUIT:
			return "SIGQUIT"
		}
		return fmt.Sprintf("SIG%d", int(s))
	}
	return sig.String()
}

// Line is the attempt-tagged output line of the given length.
func Line(step string, attempt, n int, stream string) []byte {
	if n <= 0 {
		return nil
	}
	tag := fmt.Sprintf("<%s#%d:%s:%d>", step, attempt, stream, n)
	var sb strings.Builder
	for sb.Len() < n {
		sb.WriteString(tag)
	}
	b := []byte(sb.String()[:n])
	b[n-1] = '\n'
	return b
}

// Run mirrors the contract of exec.Cmd: an expired context means nothing is
// started; a delivered signal ends the process with "signal: <name>"; a failed
// output copy is reported as the result.
func (a *Attempt) Run() error {
	if a.gate != nil {
		<-a.gate
	}
	if err := a.ctx.Err(); err != nil {
		a.w.record(Event{Kind: EvRefused, Step: a.Step, Attempt: a.Index, Err: err.Error()}, a)
		return err
	}
	a.w.mu.Lock()
	if a.killedEarly {
		a.w.mu.Unlock()
		a.w.record(Event{Kind: EvRefused, Step: a.Step, Attempt: a.Index, Err: "killed before the command was started"}, a)
		return errors.New("killed before the command was started")
	}
	a.entered = true
	sc := a.script
	if cur, ok := a.w.scripts[a.Step]; ok && cur.SelfExit {
		sc.SelfExit = true
		sc.Hold = false
	}
	evEnter := a.w.appendLocked(Event{Kind: EvEnter, Step: a.Step, Attempt: a.Index})
	a.w.mu.Unlock()
	a.w.runHooks(evEnter, a)

	var werr error
	if sc.OutLen > 0 && a.stdout != nil {
		if _, err := a.stdout.Write(Line(a.Step, a.Index, sc.OutLen, "out")); err != nil {
			werr = err
		}
	}
	if sc.ErrLen > 0 && a.stderr != nil {
		if _, err := a.stderr.Write(Line(a.Step, a.Index, sc.ErrLen, "err")); err != nil {
			werr = err
		}
	}

	var res error
	if !sc.SelfExit {
		a.w.mu.Lock()
		a.w.blocked = append(a.w.blocked, a)
		a.w.mu.Unlock()
		select {
		case <-a.release:
		case sig := <-a.sigCh:
			res = fmt.Errorf("signal: %s", sigName(sig))
		case <-a.ctx.Done():
			res = errors.New("signal: killed")
		}
		a.w.mu.Lock()
		for i, b := range a.w.blocked {
			if b == a {
				a.w.blocked = append(a.w.blocked[:i], a.w.blocked[i+1:]...)
				break
			}
		}
		a.w.mu.Unlock()
	}
	if res == nil {
		if sc.FailFirst < 0 || a.Index <= sc.FailFirst {
			res = fmt.Errorf("exit status 1 (scripted failure of attempt %d)", a.Index)
		} else if werr != nil {
			res = fmt.Errorf("output copy failed: %w", werr)
		}
	}
	es := ""
	if res != nil {
		es = res.Error()
	}
	a.w.mu.Lock()
	a.exited = true
	evExit := a.w.appendLocked(Event{Kind: EvExit, Step: a.Step, Attempt: a.Index, Err: es})
	a.w.mu.Unlock()
	a.w.runHooks(evExit, a)
	return res
}
