package sim

import (
	"context"
	"fmt"
	"io"
	"log"
	"os"
	"path/filepath"
	"runtime"
	"strconv"
	"strings"
	"sync"
	"sync/atomic"
	"syscall"
	"time"

	"github.com/ErdemOzgen/blackdagger/internal/dag"
	"github.com/ErdemOzgen/blackdagger/internal/dag/scheduler"
	"github.com/ErdemOzgen/blackdagger/internal/logger"
)

// NodeFinal is what the real scheduler reports for a node after the run.
type NodeFinal struct {
	Status     string    `json:"status"`
	RetryCount int       `json:"retryCount,omitempty"`
	DoneCount  int       `json:"doneCount,omitempty"`
	Log        string    `json:"log,omitempty"`
	StartedAt  time.Time `json:"-"`
	FinishedAt time.Time `json:"-"`
	Err        string    `json:"err,omitempty"`
}

// Result is everything observed about one run.
type Result struct {
	GraphErr string               `json:"graphErr,omitempty"`
	Trace    []Event              `json:"trace"`
	Final    map[string]NodeFinal `json:"final"`
	Handlers map[string]NodeFinal `json:"handlers,omitempty"`
	Status   string               `json:"status"`
	SchedErr string               `json:"schedErr,omitempty"`
	Hang     bool                 `json:"hang,omitempty"`
	HangInfo string               `json:"hangInfo,omitempty"`
	Order    string               `json:"order"` // realised completion order (exit events)
	// HoldReached: the HoldOpen level was reached before the liveness bound.
	HoldReached bool  `json:"holdReached,omitempty"`
	WallUS      int64 `json:"wallUS"`
	// DepSnaps: the state of every dependency at the instant a step's executor
	// was created (the step had been chosen for launch by then).
	DepSnaps []DepSnap `json:"depSnaps,omitempty"`
}

// DepSnap is the state of dependency Dep observed when an attempt of Step was launched.
type DepSnap struct {
	Step       string `json:"step"`
	Seq        int    `json:"seq"`
	Dep        string `json:"dep"`
	Status     string `json:"status"`
	RetryCount int    `json:"retryCount"`
}

// Quiet is a logger that writes nowhere.
var Quiet = logger.NewLogger(logger.NewLoggerArgs{Quiet: true, Format: "text"})

func init() {
	log.SetOutput(io.Discard)
}

// ScratchRoot is where per-case temp directories are created (tmpfs when available).
func ScratchRoot() string {
	if d := os.Getenv("VERIF_SCRATCH"); d != "" {
		return d
	}
	if st, err := os.Stat("/dev/shm"); err == nil && st.IsDir() {
		return "/dev/shm"
	}
	return os.TempDir()
}

// LoadFactor scales liveness bounds when the machine is oversubscribed.
func LoadFactor() int {
	b, err := os.ReadFile("/proc/loadavg")
	if err != nil {
		return 1
	}
	f := strings.Fields(string(b))
	if len(f) == 0 {
		return 1
	}
	v, err := strconv.ParseFloat(f[0], 64)
	if err != nil {
		return 1
	}
	if v > float64(runtime.NumCPU()) {
		return 4
	}
	return 1
}

// BuildSteps turns the specs into real dag.Steps on the scripted executor.
func BuildSteps(c *Case) ([]dag.Step, map[string]Script) {
	scripts := map[string]Script{}
	var steps []dag.Step
	for _, s := range c.Steps {
		st := dag.Step{
			Name:           s.Name,
			Command:        "scripted",
			Depends:        append([]string(nil), s.Depends...),
			ContinueOn:     dag.ContinueOn{Failure: s.ContFail, Skipped: s.ContSkip},
			ExecutorConfig: dag.ExecutorConfig{Type: ExecType, Config: map[string]any{}},
			SignalOnStop:   s.SignalOn,
		}
		for _, ce := range s.Conds() {
			st.Preconditions = append(st.Preconditions, dag.Condition{Condition: ce[0], Expected: ce[1]})
		}
		if s.Output {
			st.Output = "VERIF_OUT_" + s.Name
		}
		if s.RetryLimit >= 0 {
			st.RetryPolicy = &dag.RetryPolicy{Limit: s.RetryLimit, Interval: time.Duration(s.RetryIvUS) * time.Microsecond}
		}
		if s.Repeat {
			st.RepeatPolicy = dag.RepeatPolicy{Repeat: true, Interval: time.Duration(s.RepeatIvUS) * time.Microsecond}
		}
		if s.SetupFail {
			st.Stdout = "/nonexistent-verif-dir/sub/out.txt"
		}
		steps = append(steps, st)
		scripts[s.Name] = Script{FailFirst: s.FailFirst, IgnoreSig: s.IgnoreSig, Hold: s.Hold, OutLen: s.OutLen, ErrLen: s.ErrLen}
	}
	for h, hs := range c.Handlers {
		sc := Script{}
		if hs.Fail {
			sc.FailFirst = -1
		}
		scripts[h] = sc
	}
	return steps, scripts
}

func handlerStep(name string) *dag.Step {
	return &dag.Step{Name: name, Command: "scripted", ExecutorConfig: dag.ExecutorConfig{Type: ExecType, Config: map[string]any{}}}
}

// IsHandler tells whether a trace step name is a lifecycle handler.
func IsHandler(name string) bool {
	for _, h := range HandlerNames {
		if h == name {
			return true
		}
	}
	return false
}

// Env is a prepared run: world + scheduler + graph, before Schedule is called.
type Env struct {
	C     *Case
	W     *World
	Sc    *scheduler.Scheduler
	G     *scheduler.ExecutionGraph
	Dir   string
	Pause time.Duration
	// OnDone, when set, is called by the done-channel consumer for every node
	// the scheduler hands over (this is the instant at which the agent persists
	// a status). Setting it forces a done channel even when Case.Done is 0.
	OnDone func(n *scheduler.Node)
}

// Prepare builds the world, the real scheduler and the real execution graph.
// graphFn may replace the default graph construction (retry graphs, C10).
func Prepare(c *Case, graphFn func(steps []dag.Step) (*scheduler.ExecutionGraph, error)) (*Env, error) {
	steps, scripts := BuildSteps(c)
	w := NewWorld(scripts)
	dir, err := os.MkdirTemp(ScratchRoot(), "vsim")
	if err != nil {
		return nil, err
	}
	for i := range steps {
		sp := c.Step(steps[i].Name)
		if sp == nil || sp.SetupFail {
			continue
		}
		out, errf := filepath.Join(dir, "redir-"+sp.Name+".out"), filepath.Join(dir, "redir-"+sp.Name+".err")
		switch sp.Redirect {
		case 1:
			steps[i].Stdout = out
		case 2:
			steps[i].Stderr = errf
		case 3:
			steps[i].Stdout, steps[i].Stderr = out, errf
		case 4:
			steps[i].Stdout, steps[i].Stderr = out, out
		case 5:
			steps[i].Stdout = "/dev/null"
		case 6:
			steps[i].Stdout, steps[i].Stderr = "/dev/null", "/dev/null"
		case 7:
			steps[i].Stdout = "/dev/full"
		}
	}
	pause := time.Duration(c.PauseUS) * time.Microsecond
	if pause <= 0 {
		pause = 100 * time.Microsecond
	}
	cfg := &scheduler.Config{
		LogDir:        filepath.Join(dir, "logs"),
		Logger:        Quiet,
		MaxActiveRuns: c.MaxActive,
		Delay:         time.Duration(c.DelayUS) * time.Microsecond,
		Dry:           c.Dry,
		ReqID:         "verifreq-0001",
	}
	if c.TimeoutP > 0 {
		cfg.Timeout = time.Duration(c.TimeoutP) * pause
	}
	if c.Handlers["onExit"] != nil {
		cfg.OnExit = handlerStep("onExit")
	}
	if c.Handlers["onSuccess"] != nil {
		cfg.OnSuccess = handlerStep("onSuccess")
	}
	if c.Handlers["onFailure"] != nil {
		cfg.OnFailure = handlerStep("onFailure")
	}
	if c.Handlers["onCancel"] != nil {
		cfg.OnCancel = handlerStep("onCancel")
	}
	sc := scheduler.New(cfg)
	sc.VerifSetPause(pause)
	var g *scheduler.ExecutionGraph
	if graphFn != nil {
		g, err = graphFn(steps)
	} else {
		g, err = scheduler.NewExecutionGraph(Quiet, steps...)
	}
	if err != nil {
		os.RemoveAll(dir)
		return nil, err
	}
	return &Env{C: c, W: w, Sc: sc, G: g, Dir: dir, Pause: pause}, nil
}

// Cleanup removes the case's scratch directory and per-node environment leftovers.
func (e *Env) Cleanup() {
	os.RemoveAll(e.Dir)
	for _, kv := range os.Environ() {
		if strings.HasPrefix(kv, "STEP_") {
			if i := strings.IndexByte(kv, '='); i > 0 && strings.HasSuffix(kv[:i], "_DAG_EXECUTION_LOG_PATH") {
				os.Unsetenv(kv[:i])
			}
		}
	}
}

// Run executes the case against the real scheduler with the given liveness
// bound and returns what was observed. It never judges.
func Run(c Case, bound time.Duration) *Result {
	env, err := Prepare(&c, nil)
	if err != nil {
		return &Result{GraphErr: err.Error()}
	}
	defer env.Cleanup()
	return env.Drive(bound)
}

// hangSeen: a confirmed hang has been reported in this process. Everything the
// library runs afterwards only serves to minimise that established case, so it
// runs with a fifth of the bound and without the confirmation pass (a liveness
// failure otherwise costs 6 bounds per shrink attempt).
var hangSeen atomic.Bool

// NoteHang records a confirmed hang; HangSeen reports it.
func NoteHang()      { hangSeen.Store(true) }
func HangSeen() bool { return hangSeen.Load() }

// DefaultBound is the first-pass bounded-liveness limit for a case.
func DefaultBound(c *Case) time.Duration {
	pause := time.Duration(c.PauseUS) * time.Microsecond
	b := 2000 * pause
	if b < 5*time.Second {
		b = 5 * time.Second
	}
	if HangSeen() {
		b /= 5
	}
	return b * time.Duration(LoadFactor())
}

// RunConfirm runs the case; a hang is re-run with a 5x bound and only a second
// hang is reported as one.
func RunConfirm(c Case) *Result {
	b := DefaultBound(&c)
	r := Run(c, b)
	if r.Hang && HangSeen() {
		return r
	}
	if r.Hang {
		r2 := Run(c, 5*b)
		if r2.Hang {
			NoteHang()
		}
		if !r2.Hang {
			r2.HangInfo = "first pass exceeded bound, confirmed run finished (inconclusive-slow)"
			return r2
		}
		return r2
	}
	return r
}

// Drive runs Schedule on the prepared environment under the case's schedule.
func (e *Env) Drive(bound time.Duration) *Result {
	c, w, sc, g := e.C, e.W, e.Sc, e.G
	pause := e.Pause
	t0 := time.Now()

	var stopOnce sync.Once
	var stopWG sync.WaitGroup // async stop goroutines; awaited before the trace is read
	stop := func() {
		stopOnce.Do(func() {
			w.SetHoldActive(true)
			w.Record(EvStopCall)
			sc.Signal(g, syscall.SIGTERM, nil, true)
			w.Record(EvStopRet)
			if c.KillAfterP > 0 {
				stopWG.Add(1)
				go func() {
					defer stopWG.Done()
					time.Sleep(time.Duration(c.KillAfterP) * pause)
					w.Record(EvKillCall)
					sc.Signal(g, syscall.SIGKILL, nil, false)
					w.Record(EvKillRet)
				}()
			}
		})
	}
	var snapMu sync.Mutex
	var snaps []DepSnap
	nodeOf := map[string]*scheduler.Node{}
	for _, n := range g.Nodes() {
		nodeOf[n.Data().Step.Name] = n
	}
	w.AddHook(func(w *World, ev Event, a *Attempt) {
		if ev.Kind != EvCreate || IsHandler(ev.Step) {
			return
		}
		sp := c.Step(ev.Step)
		if sp == nil {
			return
		}
		for _, dn := range sp.Depends {
			if n := nodeOf[dn]; n != nil {
				st := n.State()
				snapMu.Lock()
				snaps = append(snaps, DepSnap{Step: ev.Step, Seq: ev.Seq, Dep: dn, Status: st.Status.String(), RetryCount: st.RetryCount})
				snapMu.Unlock()
			}
		}
	})
	if st := c.Stop; st != nil {
		delay := time.Duration(st.DelayUS) * time.Microsecond
		switch st.Trigger {
		case "event":
			w.AddHook(func(w *World, ev Event, a *Attempt) {
				if ev.Seq+1 == st.N && ev.Step != "" {
					stopWG.Add(1)
					go func() { defer stopWG.Done(); stop() }()
				}
			})
		case "create":
			w.AddHook(func(w *World, ev Event, a *Attempt) {
				if ev.Kind == EvCreate && ev.Step == st.Step && ev.Attempt == st.Attempt {
					if st.Gate {
						ch := make(chan struct{})
						a.SetGate(ch)
						stopWG.Add(1)
						go func() { defer stopWG.Done(); time.Sleep(delay); stop(); close(ch) }()
					} else {
						stopWG.Add(1)
						go func() { defer stopWG.Done(); time.Sleep(delay); stop() }()
					}
				}
			})
		case "enter":
			w.AddHook(func(w *World, ev Event, a *Attempt) {
				if ev.Kind == EvEnter && ev.Step == st.Step && ev.Attempt == st.Attempt {
					time.Sleep(delay)
					stop()
				}
			})
		case "exit":
			w.AddHook(func(w *World, ev Event, a *Attempt) {
				if ev.Kind == EvExit && ev.Step == st.Step && ev.Attempt == st.Attempt {
					if delay == 0 {
						stop()
					} else {
						stopWG.Add(1)
						go func() { defer stopWG.Done(); time.Sleep(delay); stop() }()
					}
				}
			})
		case "end":
			w.AddHook(func(w *World, ev Event, a *Attempt) {
				if ev.Kind == EvEnter && IsHandler(ev.Step) {
					stop()
				}
			})
		}
	}

	if c.TimeoutP > 0 {
		w.SetHoldActive(true)
	}
	var done chan *scheduler.Node
	var consumerWG sync.WaitGroup
	if c.Done > 0 || e.OnDone != nil {
		done = make(chan *scheduler.Node)
		consumerWG.Add(1)
		slow := c.Done == 2
		go func() {
			defer consumerWG.Done()
			i := 0
			for n := range done {
				if e.OnDone != nil {
					e.OnDone(n)
				}
				if slow {
					i++
					time.Sleep(time.Duration(i%3) * pause)
				}
			}
		}()
	}

	if c.Stop != nil && c.Stop.Trigger == "before" {
		stop()
	}

	type schedRes struct{ err error }
	resCh := make(chan schedRes, 1)
	go func() {
		d := &dag.DAG{Name: "verif-sim"}
		ctx := dag.NewContext(context.Background(), d, nil, "verifreq-0001", filepath.Join(e.Dir, "sched.log"))
		err := sc.Schedule(ctx, g, done)
		resCh <- schedRes{err}
	}()

	res := &Result{Final: map[string]NodeFinal{}}
	di := 0
	lastN := w.NumEvents()
	lastProgress := time.Now()
	tiny := pause / 4
	if tiny < 20*time.Microsecond {
		tiny = 20 * time.Microsecond
	}
	finished := false
	var sr schedRes
loop:
	for {
		select {
		case sr = <-resCh:
			finished = true
			break loop
		default:
		}
		if n := w.NumEvents(); n != lastN {
			lastN = n
			lastProgress = time.Now()
			if c.Stop != nil && n > 40+12*len(c.Steps) {
				// the generated trigger was never reached (e.g. a repeating
				// step keeps the run alive): stop now so that the case ends.
				stop()
			}
		}
		blocked := w.Blocked()
		if c.HoldOpen > 0 && !res.HoldReached {
			if w.OpenCount() >= c.HoldOpen {
				res.HoldReached = true
			} else if time.Since(lastProgress) > bound {
				res.HoldReached = false
				c2 := *c
				c2.HoldOpen = 0
				c = &c2 // give up holding; the verdict is in HoldReached
			} else {
				time.Sleep(tiny)
				continue
			}
		}
		if len(blocked) == 0 {
			if time.Since(lastProgress) > bound {
				res.Hang = true
				res.HangInfo = fmt.Sprintf("no event for %v with no releasable attempt outstanding (held=%d open=%d)", bound, w.HeldCount(), w.OpenCount())
				break loop
			}
			time.Sleep(tiny)
			continue
		}
		d := Decision{Pick: 0, Batch: 1}
		if di < len(c.Sched) {
			d = c.Sched[di]
			di++
		}
		if d.Quiesce > 0 {
			// wait until the trace has been stable for Quiesce polling periods
			// (bounded: more interleavings, never an alarm)
			limit := time.Now().Add(40 * pause)
			stableSince := time.Now()
			n0 := w.NumEvents()
			for time.Now().Before(limit) {
				time.Sleep(tiny)
				if n := w.NumEvents(); n != n0 {
					n0 = n
					stableSince = time.Now()
				}
				if time.Since(stableSince) >= time.Duration(d.Quiesce)*pause {
					break
				}
			}
			blocked = w.Blocked()
			if len(blocked) == 0 {
				continue
			}
		}
		if d.PreHalf > 0 {
			time.Sleep(time.Duration(d.PreHalf) * pause / 2)
			blocked = w.Blocked()
			if len(blocked) == 0 {
				continue
			}
		}
		b := d.Batch
		if b < 1 {
			b = 1
		}
		start := d.Pick % len(blocked)
		for k := 0; k < b && k < len(blocked); k++ {
			w.Release(blocked[(start+k)%len(blocked)])
		}
		lastProgress = time.Now()
	}
	if !finished {
		// free whatever we can so the leaked goroutines of a hung run end
		w.ReleaseAll()
		select {
		case sr = <-resCh:
		case <-time.After(200 * time.Millisecond):
		}
	} else {
		if c.Stop != nil && c.Stop.Trigger == "end" {
			stop()
		}
	}
	if finished {
		stopWG.Wait()
	}
	if done != nil && finished {
		close(done)
		consumerWG.Wait()
	}
	if sr.err != nil {
		res.SchedErr = sr.err.Error()
	}
	res.Trace = w.Trace()
	snapMu.Lock()
	res.DepSnaps = snaps
	snapMu.Unlock()
	for _, n := range g.Nodes() {
		d := n.Data()
		res.Final[d.Step.Name] = finalOf(d)
	}
	for _, h := range []struct {
		k string
		t dag.HandlerType
	}{{"onSuccess", dag.HandlerOnSuccess}, {"onFailure", dag.HandlerOnFailure}, {"onCancel", dag.HandlerOnCancel}, {"onExit", dag.HandlerOnExit}} {
		if n := sc.HandlerNode(h.t); n != nil {
			if res.Handlers == nil {
				res.Handlers = map[string]NodeFinal{}
			}
			res.Handlers[h.k] = finalOf(n.Data())
		}
	}
	res.Status = sc.Status(g).String()
	var ord []string
	for _, ev := range res.Trace {
		if ev.Kind == EvExit {
			ord = append(ord, fmt.Sprintf("%s%d", ev.Step, ev.Attempt))
		}
	}
	res.Order = strings.Join(ord, ",")
	res.WallUS = time.Since(t0).Microseconds()
	return res
}

func finalOf(d scheduler.NodeData) NodeFinal {
	f := NodeFinal{
		Status:     d.State.Status.String(),
		RetryCount: d.State.RetryCount,
		DoneCount:  d.State.DoneCount,
		Log:        d.State.Log,
		StartedAt:  d.State.StartedAt,
		FinishedAt: d.State.FinishedAt,
	}
	if d.State.Error != nil {
		f.Err = d.State.Error.Error()
	}
	return f
}
