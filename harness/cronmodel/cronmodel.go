// Package cronmodel is an independent matcher for the standard 5-field cron
// grammar (minute hour day-of-month month day-of-week; lists, ranges, steps,
// month and weekday names, * and ?), written from the documented semantics and
// not from the library the daemon uses. It answers one question: does the
// expression match the minute m?
package cronmodel

import (
	"fmt"
	"strconv"
	"strings"
	"time"
)

type field struct {
	set  [64]bool
	star bool // contains an unstepped * or ? item (matters for the day rule)
}

// Expr is a parsed expression.
type Expr struct {
	min, hour, dom, month, dow field
}

var monthNames = map[string]int{"jan": 1, "feb": 2, "mar": 3, "apr": 4, "may": 5, "jun": 6, "jul": 7, "aug": 8, "sep": 9, "oct": 10, "nov": 11, "dec": 12}
var dowNames = map[string]int{"sun": 0, "mon": 1, "tue": 2, "wed": 3, "thu": 4, "fri": 5, "sat": 6}

func atom(s string, names map[string]int) (int, error) {
	if names != nil {
		if v, ok := names[strings.ToLower(s)]; ok {
			return v, nil
		}
	}
	v, err := strconv.Atoi(s)
	if err != nil || v < 0 {
		return 0, fmt.Errorf("bad number %q", s)
	}
	return v, nil
}

func parseField(s string, lo, hi int, names map[string]int) (field, error) {
	var f field
	if s == "" {
		return f, fmt.Errorf("empty field")
	}
	for _, item := range strings.Split(s, ",") {
		if item == "" {
			return f, fmt.Errorf("empty item")
		}
		parts := strings.Split(item, "/")
		if len(parts) > 2 {
			return f, fmt.Errorf("too many slashes")
		}
		step := 1
		if len(parts) == 2 {
			v, err := strconv.Atoi(parts[1])
			if err != nil || v <= 0 {
				return f, fmt.Errorf("bad step %q", parts[1])
			}
			step = v
		}
		var a, b int
		rng := strings.Split(parts[0], "-")
		switch {
		case parts[0] == "*" || parts[0] == "?":
			a, b = lo, hi
			if step == 1 {
				f.star = true
			}
		case len(rng) == 1:
			v, err := atom(rng[0], names)
			if err != nil {
				return f, err
			}
			a, b = v, v
			if len(parts) == 2 {
				b = hi // "N/step" means "N-max/step"
			}
		case len(rng) == 2:
			var err error
			if a, err = atom(rng[0], names); err != nil {
				return f, err
			}
			if b, err = atom(rng[1], names); err != nil {
				return f, err
			}
		default:
			return f, fmt.Errorf("bad range %q", parts[0])
		}
		if a < lo || b > hi || a > b {
			return f, fmt.Errorf("out of range %q", item)
		}
		for v := a; v <= b; v += step {
			f.set[v] = true
		}
	}
	return f, nil
}

// Parse parses a 5-field expression.
func Parse(s string) (*Expr, error) {
	fs := strings.Fields(s)
	if len(fs) != 5 {
		return nil, fmt.Errorf("need 5 fields, got %d", len(fs))
	}
	var e Expr
	var err error
	if e.min, err = parseField(fs[0], 0, 59, nil); err != nil {
		return nil, err
	}
	if e.hour, err = parseField(fs[1], 0, 23, nil); err != nil {
		return nil, err
	}
	if e.dom, err = parseField(fs[2], 1, 31, nil); err != nil {
		return nil, err
	}
	if e.month, err = parseField(fs[3], 1, 12, monthNames); err != nil {
		return nil, err
	}
	if e.dow, err = parseField(fs[4], 0, 6, dowNames); err != nil {
		return nil, err
	}
	return &e, nil
}

// Matches tells whether the expression fires at minute t (t's own location).
func (e *Expr) Matches(t time.Time) bool {
	if !e.min.set[t.Minute()] || !e.hour.set[t.Hour()] || !e.month.set[int(t.Month())] {
		return false
	}
	dom, dow := e.dom.set[t.Day()], e.dow.set[int(t.Weekday())]
	// the classic rule: when both day fields are restricted either may match;
	// when one of them is a wildcard both must (i.e. the other one decides).
	if e.dom.star || e.dow.star {
		return dom && dow
	}
	return dom || dow
}
