// Package yamlgen is the grammar of DAG definitions shared by C13 (loader
// robustness) and C19 (no side effects): valid definitions are built field by
// field from generated choices, every string-valued field goes through one
// hook so that a canary (C19) or a type-confusing value (C13) can be planted.
package yamlgen

import (
	"fmt"
	"math"
	"sort"
	"strings"

	"gopkg.in/yaml.v2"
	"pgregory.net/rapid"
)

// Choice is the plain-data description of one generated definition: which
// optional parts are present and in which form. It is what a case file stores.
type Choice struct {
	ScheduleForm int      `json:"scheduleForm"` // 0 none 1 string 2 list 3 map
	Crons        []string `json:"crons,omitempty"`
	EnvForm      int      `json:"envForm"` // 0 none 1 map 2 list of maps
	NEnv         int      `json:"nEnv"`
	Params       string   `json:"params,omitempty"`
	Handlers     int      `json:"handlers"` // bit mask exit success failure cancel
	Functions    bool     `json:"functions"`
	NSteps       int      `json:"nSteps"`
	StepKinds    []int    `json:"stepKinds"` // per step: 0 command string, 1 command list, 2 script, 3 executor string, 4 executor map, 5 call, 6 run (sub workflow), 7..10 hollow (executor key without a type and nothing else to execute)
	Deps         bool     `json:"deps"`
	Extras       int      `json:"extras"` // bit mask of optional blocks: smtp mailOn errorMail infoMail misc preconditions tags-list stepOptions
	LogDir       bool     `json:"logDir"`
	Exec         string   `json:"exec,omitempty"` // executor type used for kinds 3/4 ("" = http/jq/mail rotation)
	Signal       string   `json:"signal,omitempty"` // signalOnStop of the first step when the step-options block is on ("" = SIGINT); set by checks, not by GenChoice
}

// SignalNames: canonical names, names a lenient look-up would accept (case,
// missing prefix, blanks, numbers) and names that are no signal at all.
var SignalNames = []string{"SIGTERM", "SIGINT", "SIGHUP", "SIGKILL", "SIGUSR1", "term", "sigint", "TERM", "SIGHUP ", " SIGTERM", "Sigkill", "15", "INT", "kill", "SIGNOPE", "", "SIG", "sigterm\n"}

// ValFn maps (field path, default value) to the value to emit for a
// string-valued field.
type ValFn func(field, def string) string

// Identity leaves every field at its default.
func Identity(field, def string) string { return def }

var cronPool = []string{
	"* * * * *", "0 1 * * *", "*/5 * * * *", "0 0 1 1 *", "15,45 8-18 * * 1-5", "0 0 * jan-mar mon", "5 4 * * sun", "0 0 29 2 *",
	"0 12 */2 * ?", "59 23 31 12 *",
}

// GenChoice draws a Choice.
func GenChoice(t *rapid.T) Choice {
	c := Choice{}
	c.ScheduleForm = rapid.IntRange(0, 3).Draw(t, "scheduleForm")
	nc := rapid.IntRange(1, 3).Draw(t, "nCrons")
	for i := 0; i < nc; i++ {
		c.Crons = append(c.Crons, rapid.SampledFrom(cronPool).Draw(t, "cron"))
	}
	c.EnvForm = rapid.IntRange(0, 2).Draw(t, "envForm")
	c.NEnv = rapid.IntRange(1, 3).Draw(t, "nEnv")
	c.Params = rapid.SampledFrom([]string{"", "p1 p2", `A=1 B="two words"`, `x "y z" K=v`}).Draw(t, "params")
	c.Handlers = rapid.IntRange(0, 15).Draw(t, "handlers")
	c.Functions = rapid.Bool().Draw(t, "functions")
	c.NSteps = rapid.IntRange(1, 4).Draw(t, "nSteps")
	for i := 0; i < c.NSteps; i++ {
		max := 6
		if !c.Functions {
			max = 4
		}
		k := rapid.IntRange(0, max).Draw(t, "stepKind")
		if !c.Functions && k == 4 && rapid.Bool().Draw(t, "mkRun") {
			k = 6
		}
		c.StepKinds = append(c.StepKinds, k)
	}
	c.Deps = rapid.Bool().Draw(t, "deps")
	c.Extras = rapid.IntRange(0, 255).Draw(t, "extras")
	c.LogDir = rapid.Bool().Draw(t, "logDir")
	return c
}

// M is an ordered YAML mapping.
type M = yaml.MapSlice

func kv(k string, v any) yaml.MapItem { return yaml.MapItem{Key: k, Value: v} }

// Fields returns the catalogue of string-valued field paths that Build emits
// for the choice (sorted).
func Fields(c Choice) []string {
	seen := map[string]bool{}
	Build(c, func(f, d string) string { seen[f] = true; return d })
	var out []string
	for f := range seen {
		out = append(out, f)
	}
	sort.Strings(out)
	return out
}

func step(c Choice, val ValFn, path string, name string, kind int, deps []string, withOpts bool) M {
	m := M{kv("name", val(path+".name", name))}
	if withOpts {
		m = append(m, kv("description", val(path+".description", "a step")))
		m = append(m, kv("dir", val(path+".dir", "${HOME}")))
	}
	exec := c.Exec
	switch kind {
	case 0:
		m = append(m, kv("command", val(path+".command", "echo hello")))
	case 1:
		m = append(m, kv("command", []any{val(path+".command[0]", "echo"), val(path+".command[1]", "hello"), 1}))
	case 2:
		m = append(m, kv("command", val(path+".command", "sh")))
		m = append(m, kv("script", val(path+".script", "echo from script\n")))
	case 3:
		if exec == "" {
			exec = "jq"
		}
		m = append(m, kv("executor", val(path+".executor", exec)))
		m = append(m, kv("command", val(path+".command", ".")))
		m = append(m, kv("script", val(path+".script", "{}")))
	case 4:
		if exec == "" {
			exec = "http"
		}
		m = append(m, kv("executor", M{kv("type", val(path+".executor.type", exec)), kv("config", M{
			kv("timeout", 5),
			kv("headers", M{kv("X-Test", val(path+".executor.config.headers.X-Test", "v"))}),
			kv("silent", true),
			kv("query", M{kv("q", val(path+".executor.config.query.q", "1"))}),
		})}))
		m = append(m, kv("command", val(path+".command", "GET http://127.0.0.1:1/x")))
	case 7, 8, 9, 10:
		// hollow steps: an `executor` key is present but says nothing, and there
		// is no command, script, call or run — nothing to execute (not produced
		// by GenChoice; a check sets these kinds itself)
		switch kind {
		case 7:
			m = append(m, kv("executor", ""))
		case 8:
			m = append(m, kv("executor", M{}))
		case 9:
			m = append(m, kv("executor", M{kv("type", "")}))
		case 10:
			m = append(m, kv("executor", M{kv("config", M{kv("timeout", 5)})}))
		}
	case 5:
		m = append(m, kv("call", M{kv("function", val(path+".call.function", "fn1")), kv("args", M{kv("a", val(path+".call.args.a", "1")), kv("b", 2)})}))
	case 6:
		m = append(m, kv("run", val(path+".run", "sub_dag")))
		m = append(m, kv("params", val(path+".params", "x=1")))
	}
	if len(deps) > 0 {
		var ds []any
		for _, d := range deps {
			ds = append(ds, d)
		}
		m = append(m, kv("depends", ds))
	}
	if withOpts {
		m = append(m, kv("stdout", val(path+".stdout", "out.txt")))
		m = append(m, kv("stderr", val(path+".stderr", "err.txt")))
		m = append(m, kv("output", val(path+".output", "OUT_VAR")))
		m = append(m, kv("continueOn", M{kv("failure", true), kv("skipped", false)}))
		m = append(m, kv("retryPolicy", M{kv("limit", 2), kv("intervalSec", 0)}))
		m = append(m, kv("repeatPolicy", M{kv("repeat", false), kv("intervalSec", 1)}))
		m = append(m, kv("mailOnError", false))
		sig := "SIGINT"
		if c.Signal != "" {
			sig = c.Signal
		}
		m = append(m, kv("signalOnStop", val(path+".signalOnStop", sig)))
		m = append(m, kv("preconditions", []any{M{kv("condition", val(path+".preconditions[0].condition", "$HOME")), kv("expected", val(path+".preconditions[0].expected", "re:.*"))}}))
		m = append(m, kv("env", val(path+".env", "STEP_ENV=1")))
	}
	return m
}

// Build constructs the definition as an ordered YAML mapping.
func Build(c Choice, val ValFn) M {
	d := M{}
	d = append(d, kv("name", val("name", "gen dag")))
	d = append(d, kv("group", val("group", "grp")))
	d = append(d, kv("description", val("description", "generated")))
	if c.Extras&64 != 0 {
		d = append(d, kv("tags", []any{val("tags[0]", "daily"), val("tags[1]", "ETL"), 7}))
	} else {
		d = append(d, kv("tags", val("tags", "daily, Weekly")))
	}
	crons := c.Crons
	if len(crons) == 0 {
		crons = []string{"0 1 * * *"}
	}
	switch c.ScheduleForm {
	case 1:
		d = append(d, kv("schedule", val("schedule", crons[0])))
	case 2:
		var l []any
		for i, x := range crons {
			l = append(l, val(fmt.Sprintf("schedule[%d]", i), x))
		}
		d = append(d, kv("schedule", l))
	case 3:
		sm := M{kv("start", val("schedule.start", crons[0]))}
		if len(crons) > 1 {
			sm = append(sm, kv("stop", []any{val("schedule.stop[0]", crons[1])}))
		}
		if len(crons) > 2 {
			sm = append(sm, kv("restart", val("schedule.restart", crons[2])))
		}
		d = append(d, kv("schedule", sm))
	}
	switch c.EnvForm {
	case 1:
		em := M{}
		for i := 0; i < c.NEnv; i++ {
			em = append(em, kv(fmt.Sprintf("GEN_ENV_%d", i), val(fmt.Sprintf("env.GEN_ENV_%d", i), fmt.Sprintf("v%d", i))))
		}
		em = append(em, kv("GEN_ENV_NUM", 42))
		d = append(d, kv("env", em))
	case 2:
		var l []any
		for i := 0; i < c.NEnv; i++ {
			l = append(l, M{kv(fmt.Sprintf("GEN_ENV_%d", i), val(fmt.Sprintf("env[%d].GEN_ENV_%d", i, i), fmt.Sprintf("v%d", i)))})
		}
		d = append(d, kv("env", l))
	}
	if c.LogDir {
		d = append(d, kv("logDir", val("logDir", "${HOME}/logs")))
	}
	if c.Params != "" {
		d = append(d, kv("params", val("params", c.Params)))
	}
	if c.Functions {
		d = append(d, kv("functions", []any{M{kv("name", val("functions[0].name", "fn1")), kv("params", val("functions[0].params", "a b")), kv("command", val("functions[0].command", "echo $a $b"))}}))
	}
	if c.Handlers != 0 {
		hm := M{}
		for i, h := range []string{"exit", "success", "failure", "cancel"} {
			if c.Handlers&(1<<i) != 0 {
				hs := step(c, val, "handlerOn."+h, "ignored", i%3, nil, false)
				hm = append(hm, kv(h, hs[1:])) // handler steps carry no name
			}
		}
		d = append(d, kv("handlerOn", hm))
	}
	if c.Extras&1 != 0 {
		d = append(d, kv("smtp", M{kv("host", val("smtp.host", "${SMTP_HOST}")), kv("port", val("smtp.port", "25")), kv("username", val("smtp.username", "u")), kv("password", val("smtp.password", "${SMTP_PW}"))}))
	}
	if c.Extras&2 != 0 {
		d = append(d, kv("mailOn", M{kv("failure", true), kv("success", false)}))
	}
	if c.Extras&4 != 0 {
		d = append(d, kv("errorMail", M{kv("from", val("errorMail.from", "a@x")), kv("to", val("errorMail.to", "b@x")), kv("prefix", val("errorMail.prefix", "[E]")), kv("attachLogs", true)}))
	}
	if c.Extras&8 != 0 {
		d = append(d, kv("infoMail", M{kv("from", val("infoMail.from", "a@x")), kv("to", val("infoMail.to", "b@x")), kv("prefix", val("infoMail.prefix", "[I]"))}))
	}
	if c.Extras&16 != 0 {
		d = append(d, kv("timeoutSec", 600), kv("delaySec", 0), kv("restartWaitSec", 1), kv("histRetentionDays", 3), kv("maxActiveRuns", 2), kv("maxCleanUpTimeSec", 5))
	}
	if c.Extras&32 != 0 {
		d = append(d, kv("preconditions", []any{M{kv("condition", val("preconditions[0].condition", "1")), kv("expected", val("preconditions[0].expected", "1"))}}))
	}
	var steps []any
	var names []string
	for i := 0; i < c.NSteps; i++ {
		kind := 0
		if i < len(c.StepKinds) {
			kind = c.StepKinds[i]
		}
		if !c.Functions && kind == 5 {
			kind = 0
		}
		name := fmt.Sprintf("step %d", i+1)
		var deps []string
		if c.Deps && i > 0 {
			deps = []string{names[i-1]}
		}
		steps = append(steps, step(c, val, fmt.Sprintf("steps[%d]", i), name, kind, deps, c.Extras&128 != 0 && i == 0))
		names = append(names, name)
	}
	d = append(d, kv("steps", steps))
	return d
}

// Marshal renders the mapping as YAML text.
func Marshal(m any) []byte {
	b, err := yaml.Marshal(m)
	if err != nil {
		return []byte("marshal-error: " + err.Error())
	}
	return b
}

// ---------------------------------------------------------------- mutation

// Mutation is one type-confusing edit, addressed by a pre-order index into
// the tree so that it is plain data.
type Mutation struct {
	Target int    `json:"target"` // pre-order index of the node to edit (mod node count)
	Op     string `json:"op"`     // replace delete dup nest unknownKey
	With   int    `json:"with"`   // index into the replacement pool
}

// Replacements is the pool of type-confusing values.
func Replacements() []any {
	long := strings.Repeat("x", 70000)
	return []any{
		"str", "", 0, -1, 3.5, true, nil, []any{}, []any{"a", 1, nil}, M{}, M{kv("k", "v")},
		[]any{M{kv("a", M{kv("b", []any{M{kv("c", 1)}})})}}, math.NaN(), math.Inf(1), long, "re:[", "`echo x`", "${UNSET_VAR_VERIF}",
		M{kv("foo", "* * * * *")}, []any{[]any{"nested"}}, M{yaml.MapItem{Key: 1, Value: "intkey"}}, M{kv("type", 5)}, M{kv("type", "command"), kv("config", []any{1})},
		"* * * *", "61 * * * *", "@every 1s", "TZ=UTC * * * * *", "TZ=UTC", "CRON_TZ=", "TZ=Nowhere/X 1 1 1 1 1", "SIGNOPE", []any{""}, "0x10", "~", "1e999", M{kv("start", 5)}, M{kv("start", []any{1})},
		M{kv("function", "nope"), kv("args", M{})}, M{kv("function", "fn1"), kv("args", M{kv("a", []any{1}), kv("b", 2)})},
		// (appended later; indices above are referenced by saved replays)
		[]any{[]any{M{kv("url", "x")}}}, []any{1, math.NaN()}, M{kv("w", []any{1.5, math.Inf(-1)})}, []any{[]any{[]any{M{kv("deep", M{kv("er", []any{M{kv("x", 1)}})})}}}},
		M{kv("batches", []any{[]any{M{kv("url", "x")}}}), kv("weights", []any{1, math.NaN()})},
		"term", "sigint", "TERM", "SIGHUP ", " SIGTERM", "Sigkill", "15",
	}
}

// node addressing: walk the tree pre-order; containers and leaves are nodes.
func walk(v any, set func(any), visit func(get func() any, set func(any), parentMap *M, parentList *[]any, idx int)) {
	switch x := v.(type) {
	case M:
		mm := x
		for i := range mm {
			i := i
			visit(func() any { return mm[i].Value }, func(n any) { mm[i].Value = n }, &mm, nil, i)
			walk(mm[i].Value, func(n any) { mm[i].Value = n }, visit)
		}
	case []any:
		l := x
		for i := range l {
			i := i
			visit(func() any { return l[i] }, func(n any) { l[i] = n }, nil, &l, i)
			walk(l[i], func(n any) { l[i] = n }, visit)
		}
	}
}

// CountNodes returns the number of addressable nodes.
func CountNodes(root M) int {
	n := 0
	walk(root, nil, func(func() any, func(any), *M, *[]any, int) { n++ })
	return n
}

// Apply applies the mutations to the tree and returns the YAML text. Because
// deleting / duplicating keys changes container lengths, the text is produced
// by marshalling after each structural edit is recorded as a rewrite of the
// parent container.
func Apply(root M, muts []Mutation) (M, []string) {
	var notes []string
	for _, mu := range muts {
		total := CountNodes(root)
		if total == 0 {
			break
		}
		target := mu.Target % total
		i := 0
		done := false
		pool := Replacements()
		root = rewrite(root, func(path string, v any, key any) (any, string, bool) {
			if done {
				return v, "", false
			}
			if i == target {
				i++
				done = true
				switch mu.Op {
				case "delete":
					notes = append(notes, "delete "+path)
					return nil, "delete", true
				case "dup":
					notes = append(notes, "dup "+path)
					return v, "dup", true
				case "nest":
					notes = append(notes, "nest "+path)
					return M{kv("nested", v)}, "replace", true
				case "unknownKey":
					notes = append(notes, "unknownKey at "+path)
					return v, "unknownKey", true
				default:
					r := pool[mu.With%len(pool)]
					notes = append(notes, fmt.Sprintf("replace %s with #%d", path, mu.With%len(pool)))
					return r, "replace", true
				}
			}
			i++
			return v, "", false
		}).(M)
	}
	return root, notes
}

// rewrite rebuilds the tree pre-order, letting fn edit one node.
func rewrite(v any, fn func(path string, v any, key any) (any, string, bool)) any {
	return rewriteAt("", v, fn)
}

func rewriteAt(path string, v any, fn func(path string, v any, key any) (any, string, bool)) any {
	switch x := v.(type) {
	case M:
		out := M{}
		for _, it := range x {
			p := fmt.Sprintf("%s.%v", path, it.Key)
			nv, action, hit := fn(p, it.Value, it.Key)
			if hit {
				switch action {
				case "delete":
					continue
				case "dup":
					out = append(out, yaml.MapItem{Key: it.Key, Value: it.Value}, yaml.MapItem{Key: it.Key, Value: it.Value})
					continue
				case "unknownKey":
					out = append(out, yaml.MapItem{Key: it.Key, Value: addUnknown(it.Value)})
					continue
				default:
					out = append(out, yaml.MapItem{Key: it.Key, Value: nv})
					continue
				}
			}
			out = append(out, yaml.MapItem{Key: it.Key, Value: rewriteAt(p, it.Value, fn)})
		}
		return out
	case []any:
		var out []any
		for i, e := range x {
			p := fmt.Sprintf("%s[%d]", path, i)
			nv, action, hit := fn(p, e, i)
			if hit {
				switch action {
				case "delete":
					continue
				case "dup":
					out = append(out, e, e)
					continue
				case "unknownKey":
					out = append(out, addUnknown(e))
					continue
				default:
					out = append(out, nv)
					continue
				}
			}
			out = append(out, rewriteAt(p, e, fn))
		}
		if out == nil {
			out = []any{}
		}
		return out
	}
	return v
}

func addUnknown(v any) any {
	if m, ok := v.(M); ok {
		return append(append(M{}, m...), kv("unknownKeyVerif", "x"))
	}
	return M{kv("unknownKeyVerif", v)}
}

// GenMutations draws 0..3 mutations.
func GenMutations(t *rapid.T, max int) []Mutation {
	n := rapid.IntRange(0, max).Draw(t, "nMut")
	var ms []Mutation
	for i := 0; i < n; i++ {
		ms = append(ms, Mutation{
			Target: rapid.IntRange(0, 400).Draw(t, "mutTarget"),
			Op:     rapid.SampledFrom([]string{"replace", "replace", "replace", "replace", "delete", "dup", "nest", "unknownKey"}).Draw(t, "mutOp"),
			With:   rapid.IntRange(0, len(Replacements())-1).Draw(t, "mutWith"),
		})
	}
	return ms
}
