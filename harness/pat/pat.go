// Package pat defines the byte patterns that the emit helper writes and the
// checks expect: attempt-tagged pseudo-random letters over disjoint alphabets
// (stdout lower-case, stderr upper-case), with a newline every 61st byte so
// that line-oriented consumers see lines. Filter() removes everything outside
// a stream's alphabet, so the interleaving of the two streams in one file is
// unconstrained.
package pat

// Bytes returns the n bytes attempt `attempt` writes to the stream
// ('o' = stdout, 'e' = stderr).
func Bytes(attempt int, stream byte, n int) []byte {
	base := byte('a')
	if stream == 'e' {
		base = 'A'
	}
	x := uint64(attempt)*0x9E3779B97F4A7C15 + uint64(stream)*0xBF58476D1CE4E5B9 + 0x94D049BB133111EB
	out := make([]byte, n)
	for i := range out {
		x ^= x << 13
		x ^= x >> 7
		x ^= x << 17
		if i%61 == 60 {
			out[i] = '\n'
		} else {
			out[i] = base + byte(x%26)
		}
	}
	return out
}

// Filter keeps only the bytes of the stream's alphabet.
func Filter(b []byte, stream byte) []byte {
	lo, hi := byte('a'), byte('z')
	if stream == 'e' {
		lo, hi = 'A', 'Z'
	}
	out := make([]byte, 0, len(b))
	for _, c := range b {
		if c >= lo && c <= hi {
			out = append(out, c)
		}
	}
	return out
}
