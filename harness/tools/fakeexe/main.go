// fakeexe stands in for the blackdagger executable that client.Client spawns
// for start / retry / restart: it appends its argument vector as one JSON line
// to $VERIF_FAKEEXE_LOG and exits 0.
package main

import (
	"encoding/json"
	"os"
)

func main() {
	p := os.Getenv("VERIF_FAKEEXE_LOG")
	if p == "" {
		os.Exit(3)
	}
	b, _ := json.Marshal(os.Args[1:])
	f, err := os.OpenFile(p, os.O_APPEND|os.O_CREATE|os.O_WRONLY, 0o644)
	if err != nil {
		os.Exit(3)
	}
	f.Write(append(b, '\n'))
	f.Close()
}
