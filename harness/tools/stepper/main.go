// stepper is the step process of C10's cli stage: it dumps its environment
// (NUL-separated, as `env -0` does) to <dir>/<name>.env, counts its own
// invocations in <dir>/<name>.cnt and fails its first k invocations (unless
// <dir>/allok exists). A fifth
// argument makes it leave <dir>/<name>.<arg> behind as well.
//
// usage: stepper <dir> <name> <fail-first-k> [marker...]
package main

import (
	"os"
	"path/filepath"
	"strconv"
	"strings"
)

func main() {
	if len(os.Args) < 4 {
		os.Exit(2)
	}
	dir, name := os.Args[1], os.Args[2]
	k, _ := strconv.Atoi(os.Args[3])
	// every further argument leaves <dir>/<name>.<arg> behind (arguments with
	// blanks included: what the process received, verbatim)
	for _, a := range os.Args[4:] {
		os.WriteFile(filepath.Join(dir, name+"."+a), nil, 0o644)
	}
	tmp := filepath.Join(dir, name+".env.tmp"+strconv.Itoa(os.Getpid()))
	if err := os.WriteFile(tmp, []byte(strings.Join(os.Environ(), "\x00")+"\x00"), 0o644); err != nil {
		os.Exit(3)
	}
	os.Rename(tmp, filepath.Join(dir, name+".env"))
	cnt := filepath.Join(dir, name+".cnt")
	attempt := 1
	if b, err := os.ReadFile(cnt); err == nil {
		n, _ := strconv.Atoi(strings.TrimSpace(string(b)))
		attempt = n + 1
	}
	if err := os.WriteFile(cnt, []byte(strconv.Itoa(attempt)), 0o644); err != nil {
		os.Exit(3)
	}
	// <dir>/allok: from now on every step succeeds (set before a retry)
	if _, err := os.Stat(filepath.Join(dir, "allok")); err == nil {
		return
	}
	if attempt <= k {
		os.Exit(1)
	}
}
