// second is run by the sysstop supervisor while the first `blackdagger start`
// is held at a chosen system call: it snapshots what is observable from
// outside (history files, marker lines, whether the DAG's status socket
// answers), issues the second start / retry of the same DAG file, snapshots
// again, and writes a JSON report.
//
// usage: second <report.json> <data-dir> <marker-file> <dag-file> <blackdagger-binary> start|retry [request-id]
package main

import (
	"context"
	"encoding/json"
	"os"
	"os/exec"
	"path/filepath"
	"strings"
	"time"

	"github.com/ErdemOzgen/blackdagger/internal/dag"
	"github.com/ErdemOzgen/blackdagger/internal/sock"
)

// Snap is one outside view.
type Snap struct {
	HistoryFiles []string `json:"historyFiles"`
	MarkerLines  int      `json:"markerLines"`
	SocketExists bool     `json:"socketExists"`
	SocketAnswer string   `json:"socketAnswer"` // "" if the status endpoint does not answer
	SocketErr    string   `json:"socketErr,omitempty"`
}

// Report is what the harness reads afterwards.
type Report struct {
	Before     Snap   `json:"before"`
	After      Snap   `json:"after"`
	SecondExit int    `json:"secondExit"`
	SecondOut  string `json:"secondOut"`
	SecondMS   int64  `json:"secondMS"`
	TimedOut   bool   `json:"timedOut,omitempty"`
	Backdated  bool   `json:"backdated,omitempty"`
}

func snap(data, marker string, d *dag.DAG) Snap {
	var s Snap
	// the endpoint probe can take seconds (time-out): do it first, so that the
	// file observations below are as fresh as possible
	if _, err := os.Stat(d.SockAddr()); err == nil {
		s.SocketExists = true
	}
	ans, err := sock.NewClient(d.SockAddr()).Request("GET", "/status")
	if err != nil {
		s.SocketErr = err.Error()
	} else {
		s.SocketAnswer = ans
		if len(s.SocketAnswer) > 200 {
			s.SocketAnswer = s.SocketAnswer[:200]
		}
	}
	if s.SocketErr != "" {
		// re-check existence after a failed probe: the run may have ended meanwhile
		_, err := os.Stat(d.SockAddr())
		s.SocketExists = err == nil
	}
	filepath.Walk(data, func(p string, info os.FileInfo, err error) error {
		if err == nil && !info.IsDir() && strings.HasSuffix(p, ".dat") {
			s.HistoryFiles = append(s.HistoryFiles, filepath.Base(p))
		}
		return nil
	})
	if b, err := os.ReadFile(marker); err == nil {
		s.MarkerLines = strings.Count(string(b), "\n")
	}
	return s
}

func main() {
	report, data, marker, file, bin, mode := os.Args[1], os.Args[2], os.Args[3], os.Args[4], os.Args[5], os.Args[6]
	d, err := dag.LoadMetadata(file)
	if err != nil {
		os.Exit(2)
	}
	var r Report
	r.Before = snap(data, marker, d)
	// optional: the spelling of the file on the second's command line, its
	// working directory, and "backdate"
	named, cwd := file, ""
	if len(os.Args) > 9 {
		named, cwd = os.Args[8], os.Args[9]
	}
	if len(os.Args) > 10 && os.Args[10] == "backdate" && r.Before.SocketAnswer != "" {
		old := time.Now().Add(-25 * time.Hour)
		filepath.Walk(data, func(p string, fi os.FileInfo, err error) error {
			if err == nil && !fi.IsDir() {
				os.Chtimes(p, old, old)
			}
			return nil
		})
		r.Backdated = true
	}
	args := []string{"start", "-q", named}
	if mode == "retry" && len(os.Args) > 7 {
		args = []string{"retry", "--req=" + os.Args[7], named}
	}
	ctx, cancel := context.WithTimeout(context.Background(), 20*time.Second)
	defer cancel()
	t0 := time.Now()
	cmd := exec.CommandContext(ctx, bin, args...)
	cmd.Dir = cwd
	if len(os.Args) > 11 && os.Args[11] != "" && os.Args[11] != "-" {
		// the second is issued from an environment with another TMPDIR (a cron
		// daemon versus a login shell)
		os.MkdirAll(os.Args[11], 0o755)
		cmd.Env = append(os.Environ(), "TMPDIR="+os.Args[11])
	}
	out, err := cmd.CombinedOutput()
	r.SecondMS = time.Since(t0).Milliseconds()
	if ctx.Err() != nil {
		r.TimedOut = true
	}
	if ee, ok := err.(*exec.ExitError); ok {
		r.SecondExit = ee.ExitCode()
	} else if err != nil {
		r.SecondExit = -1
	}
	r.SecondOut = string(out)
	if len(r.SecondOut) > 600 {
		r.SecondOut = r.SecondOut[len(r.SecondOut)-600:]
	}
	r.After = snap(data, marker, d)
	b, _ := json.MarshalIndent(&r, "", " ")
	os.WriteFile(report, b, 0o644)
}
