// argdump writes its arguments (after the first) NUL-separated to the file
// named by the first: the consumer position "$NAME inside a command line".
//
// usage: argdump <file> [arg...]
package main

import (
	"os"
	"strings"
)

func main() {
	if len(os.Args) < 2 {
		os.Exit(2)
	}
	tmp := os.Args[1] + ".tmp"
	out := ""
	if len(os.Args) > 2 {
		out = strings.Join(os.Args[2:], "\x00") + "\x00"
	}
	if err := os.WriteFile(tmp, []byte(out), 0o644); err != nil {
		os.Exit(3)
	}
	os.Rename(tmp, os.Args[1])
}
