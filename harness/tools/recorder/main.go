// recorder is the helper process of the crash checks (C07, C18): it executes a
// scripted list of HistoryStore / DAGStore operations against the real stores
// and prints "ACK <i>" (one write(2) to stdout, a pipe) after operation i has
// returned. The harness runs it under the sysstop supervisor and kills it at a
// chosen system call.
//
// Query operations (recent / today / find) print "READ <i> <json>" instead; with
// "markers" every operation is preceded by a stat of <data>/.op<i> (C06 held-reader stage).
//
// usage: recorder <script.json>
package main

import (
	"encoding/json"
	"fmt"
	"os"
	"time"

	"github.com/ErdemOzgen/blackdagger/internal/persistence/jsondb"
	"github.com/ErdemOzgen/blackdagger/internal/persistence/local"
	"github.com/ErdemOzgen/blackdagger/internal/persistence/model"
)

// Op is one scripted operation.
type Op struct {
	Kind   string          `json:"kind"` // open write close update rename removeOld removeAll updateSpec createDAG renameDAG deleteDAG
	Dag    string          `json:"dag,omitempty"`
	To     string          `json:"to,omitempty"`
	Req    string          `json:"req,omitempty"`
	TimeMS int64           `json:"timeMS,omitempty"` // start time, unix milliseconds
	Days   int             `json:"days,omitempty"`
	Status json.RawMessage `json:"status,omitempty"`
	Name   string          `json:"name,omitempty"`
	Text   string          `json:"text,omitempty"`
	N      int             `json:"n,omitempty"`
}

// Script is the recorder's input.
type Script struct {
	Data        string `json:"data"`
	DAGs        string `json:"dags"`
	LatestToday bool   `json:"latestToday"`
	Markers     bool   `json:"markers,omitempty"`
	Ops         []Op   `json:"ops"`
}

func main() {
	b, err := os.ReadFile(os.Args[1])
	if err != nil {
		fmt.Fprintln(os.Stderr, err)
		os.Exit(2)
	}
	var sc Script
	if err := json.Unmarshal(b, &sc); err != nil {
		fmt.Fprintln(os.Stderr, err)
		os.Exit(2)
	}
	db := jsondb.New(sc.Data, sc.LatestToday)
	ds := local.NewDAGStore(&local.NewDAGStoreArgs{Dir: sc.DAGs})
	os.Stdout.WriteString("READY\n")
	for i, op := range sc.Ops {
		var err error
		var st *model.Status
		if len(op.Status) > 0 {
			st, err = model.StatusFromJSON(string(op.Status))
			if err != nil {
				fmt.Fprintln(os.Stderr, "bad status:", err)
				os.Exit(2)
			}
		}
		if sc.Markers {
			// a stat under the data prefix that delimits the operations in the supervisor's call log
			_, _ = os.Stat(fmt.Sprintf("%s/.op%d", sc.Data, i))
		}
		switch op.Kind {
		case "recent", "today", "find":
			// queries: "READ <i> <json array of the returned statuses>"
			var out []json.RawMessage
			add := func(st *model.Status) {
				if st != nil {
					b, _ := st.ToJSON()
					out = append(out, b)
				}
			}
			switch op.Kind {
			case "recent":
				for _, sf := range db.ReadStatusRecent(op.Dag, op.N) {
					add(sf.Status)
				}
			case "today":
				st, e := db.ReadStatusToday(op.Dag)
				if e == nil {
					add(st)
				}
			case "find":
				sf, e := db.FindByRequestID(op.Dag, op.Req)
				if e == nil && sf != nil {
					add(sf.Status)
				}
			}
			b, _ := json.Marshal(out)
			os.Stdout.WriteString(fmt.Sprintf("READ %d %s\n", i, b))
			continue
		case "open":
			err = db.Open(op.Dag, time.UnixMilli(op.TimeMS), op.Req)
		case "write":
			err = db.Write(st)
		case "close":
			err = db.Close()
		case "update":
			err = db.Update(op.Dag, op.Req, st)
		case "rename":
			err = db.Rename(op.Dag, op.To)
		case "removeOld":
			err = db.RemoveOld(op.Dag, op.Days)
		case "removeAll":
			err = db.RemoveAll(op.Dag)
		case "updateSpec":
			err = ds.UpdateSpec(op.Name, []byte(op.Text))
		case "createDAG":
			_, err = ds.Create(op.Name, []byte(op.Text))
		case "renameDAG":
			err = ds.Rename(op.Name, op.To)
		case "deleteDAG":
			err = ds.Delete(op.Name)
		default:
			fmt.Fprintln(os.Stderr, "unknown op", op.Kind)
			os.Exit(2)
		}
		if err != nil {
			os.Stdout.WriteString(fmt.Sprintf("ERR %d %v\n", i, err))
		} else {
			os.Stdout.WriteString(fmt.Sprintf("ACK %d\n", i))
		}
	}
}
