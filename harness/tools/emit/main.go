// emit is the child process of the C12 / C11 checks: it counts its own
// invocations in a file, writes attempt-tagged patterns to stdout / stderr in
// chunks, and fails its first k invocations.
//
// usage: emit <counter-file> <fail-first-k> <stdout-bytes> <stderr-bytes> <chunk> [payload-file]
//
// With a payload file, its content is written to stdout instead of the pattern.
package main

import (
	"fmt"
	"os"
	"strconv"

	"github.com/ErdemOzgen/blackdagger/verifharness/pat"
)

func atoi(s string) int { v, _ := strconv.Atoi(s); return v }

func main() {
	if len(os.Args) < 6 {
		fmt.Fprintln(os.Stderr, "usage: emit counter k out err chunk [payload]")
		os.Exit(2)
	}
	counter, k, nOut, nErr, chunk := os.Args[1], atoi(os.Args[2]), atoi(os.Args[3]), atoi(os.Args[4]), atoi(os.Args[5])
	attempt := 1
	if b, err := os.ReadFile(counter); err == nil {
		attempt = atoi(string(b)) + 1
	}
	if err := os.WriteFile(counter, []byte(strconv.Itoa(attempt)), 0o644); err != nil {
		os.Exit(3)
	}
	out := pat.Bytes(attempt, 'o', nOut)
	if len(os.Args) > 6 {
		b, err := os.ReadFile(os.Args[6])
		if err != nil {
			os.Exit(4)
		}
		out = b
	}
	er := pat.Bytes(attempt, 'e', nErr)
	if chunk <= 0 {
		chunk = 1 << 30
	}
	for len(out) > 0 || len(er) > 0 {
		if n := min(chunk, len(out)); n > 0 {
			if _, err := os.Stdout.Write(out[:n]); err != nil {
				os.Exit(5)
			}
			out = out[n:]
		}
		if n := min(chunk, len(er)); n > 0 {
			if _, err := os.Stderr.Write(er[:n]); err != nil {
				os.Exit(5)
			}
			er = er[n:]
		}
	}
	if attempt <= k || k < 0 {
		os.Exit(1)
	}
}
