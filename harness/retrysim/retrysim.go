// Package retrysim: retry re-executes exactly the unfinished part of a recorded run
// (scheduler level: recorded vectors are produced by really running, stopping
// or "crashing" an original run on the scripted executor, pass through the real
// persistence encoding, and are retried with NewExecutionGraphForRetry +
// Schedule).
package retrysim

import (
	"fmt"
	"sort"
	"strings"
	"sync"
	"time"

	"github.com/ErdemOzgen/blackdagger/internal/dag"
	"github.com/ErdemOzgen/blackdagger/internal/dag/scheduler"
	"github.com/ErdemOzgen/blackdagger/internal/persistence/model"
	"github.com/ErdemOzgen/blackdagger/verifharness/rep"
	"github.com/ErdemOzgen/blackdagger/verifharness/sim"
	"pgregory.net/rapid"
)


// Case is one generated retry case.
type Case struct {
	Orig sim.Case `json:"orig"`
	// Cut selects the recorded vector: <0 the state after the original run
	// ended (finished, failed or stopped); >=0 the Cut-th status the agent would
	// have persisted (index modulo the number of persisted statuses) — what a
	// killed process leaves behind.
	Cut        int            `json:"cut"`
	RetryFail  map[string]int `json:"retryFail,omitempty"` // per step: fail-first script during the retry (0 or -1)
	RetrySched []sim.Decision `json:"retrySched,omitempty"`
	RetryMax   int            `json:"retryMax,omitempty"`
	RetryDone  int            `json:"retryDone,omitempty"`
	// Vector, when set (replay files of schedule-dependent vectors), overrides
	// the original run: step name -> recorded status text.
	Vector map[string]string `json:"vector,omitempty"`
}

// Gen draws a retry case.
func Gen(t *rapid.T) Case {
	o := sim.GenOpts{MaxSteps: 7, Retries: true, SetupFails: true, Stop: true}
	if rep.Thorough() {
		o.MaxSteps = 11
	}
	c := Case{Orig: sim.Gen(t, o)}
	if rapid.IntRange(0, 2).Draw(t, "crash") == 0 {
		c.Cut = rapid.IntRange(0, 5*len(c.Orig.Steps)+1).Draw(t, "cut")
	} else {
		c.Cut = -1
	}
	c.RetryFail = map[string]int{}
	for _, s := range c.Orig.Steps {
		switch rapid.IntRange(0, 7).Draw(t, "rfail") {
		case 0:
			c.RetryFail[s.Name] = -1
		case 1, 2:
			// fail the first k attempts of the retry run, k below / at / above the limit
			c.RetryFail[s.Name] = rapid.IntRange(0, max(s.RetryLimit, 0)+1).Draw(t, "rk")
		}
	}
	n := rapid.IntRange(0, len(c.Orig.Steps)+2).Draw(t, "nRetryDecisions")
	for i := 0; i < n; i++ {
		c.RetrySched = append(c.RetrySched, sim.Decision{
			Pick:    rapid.IntRange(0, 7).Draw(t, "pick"),
			Batch:   rapid.SampledFrom([]int{1, 1, 2, 3}).Draw(t, "batch"),
			PreHalf: rapid.SampledFrom([]int{0, 0, 1}).Draw(t, "preHalf"),
			Quiesce: rapid.SampledFrom([]int{0, 1, 2}).Draw(t, "quiesce"),
		})
	}
	c.RetryMax = rapid.SampledFrom([]int{0, 0, 1, 2}).Draw(t, "retryMax")
	c.RetryDone = rapid.IntRange(0, 2).Draw(t, "retryDone")
	return c
}

// record runs the original run and returns the recorded vector in its
// persisted (JSON) form, and how it was cut.
func record(c *Case) (js string, how string, err error) {
	if c.Vector != nil {
		// synthetic vector (replay): build node data from the specs
		steps, _ := sim.BuildSteps(&c.Orig)
		var nd []scheduler.NodeData
		for _, st := range steps {
			nd = append(nd, scheduler.NodeData{Step: st, State: scheduler.NodeState{Status: statusOf(c.Vector[st.Name])}})
		}
		b, e := (&model.Status{Nodes: model.FromNodes(nd)}).ToJSON()
		return string(b), "given", e
	}
	orig := c.Orig
	env, e := sim.Prepare(&orig, nil)
	if e != nil {
		return "", "", e
	}
	defer env.Cleanup()
	var snaps [][]scheduler.NodeData
	snaps = append(snaps, env.G.NodeData()) // the status written before the run starts
	var smu sync.Mutex
	snap := func() {
		nd := env.G.NodeData()
		smu.Lock()
		snaps = append(snaps, nd)
		smu.Unlock()
	}
	// the agent persists a status at every done-channel hand-over and once
	// 100 ms after the start, i.e. at an arbitrary instant of the run: every
	// start / exit of a command is a candidate for that instant.
	env.OnDone = func(*scheduler.Node) { snap() }
	env.W.AddHook(func(w *sim.World, ev sim.Event, a *sim.Attempt) {
		if ev.Kind == sim.EvEnter || ev.Kind == sim.EvExit {
			snap()
		}
	})
	r := env.Drive(sim.DefaultBound(&orig))
	if r.Hang {
		return "", "", fmt.Errorf("original run did not end: %s", r.HangInfo)
	}
	var vec []scheduler.NodeData
	if c.Cut < 0 {
		vec = env.G.NodeData()
		how = "ended:" + r.Status
	} else {
		vec = snaps[c.Cut%len(snaps)]
		how = "crashed"
	}
	b, e := (&model.Status{Nodes: model.FromNodes(vec)}).ToJSON()
	return string(b), how, e
}

func statusOf(s string) scheduler.NodeStatus {
	for _, st := range []scheduler.NodeStatus{scheduler.NodeStatusNone, scheduler.NodeStatusRunning, scheduler.NodeStatusError, scheduler.NodeStatusCancel, scheduler.NodeStatusSuccess, scheduler.NodeStatusSkipped} {
		if st.String() == s {
			return st
		}
	}
	return scheduler.NodeStatusNone
}

// retry re-loads the persisted vector as the agent does and runs the retry.
func retry(c *Case, js string, bound time.Duration) (*sim.Result, map[string]string, *sim.Case, error) {
	st, err := model.StatusFromJSON(js)
	if err != nil {
		return nil, nil, nil, err
	}
	recorded := map[string]string{}
	recordedRetries = map[string]int{}
	var nodes []*scheduler.Node
	for _, n := range st.Nodes {
		recorded[n.Step.Name] = n.Status.String()
		recordedRetries[n.Step.Name] = n.RetryCount
		nodes = append(nodes, n.ToNode())
	}
	c2 := c.Orig
	c2.Steps = append([]sim.StepSpec(nil), c.Orig.Steps...)
	for i := range c2.Steps {
		c2.Steps[i].FailFirst = c.RetryFail[c2.Steps[i].Name]
		c2.Steps[i].Hold = false
		c2.Steps[i].IgnoreSig = false
	}
	c2.Stop, c2.TimeoutP, c2.KillAfterP, c2.HoldOpen = nil, 0, 0, 0
	c2.Sched, c2.MaxActive, c2.Done = c.RetrySched, c.RetryMax, c.RetryDone
	env, err := sim.Prepare(&c2, func([]dag.Step) (*scheduler.ExecutionGraph, error) {
		return scheduler.NewExecutionGraphForRetry(sim.Quiet, nodes...)
	})
	if err != nil {
		return nil, recorded, &c2, err
	}
	defer env.Cleanup()
	return env.Drive(bound), recorded, &c2, nil
}

// recordedRetries: retry counts in the recorded vector of the case being judged.
var recordedRetries map[string]int

// mustRerun is the set R of the property: steps recorded failed / canceled /
// running / not started, closed under "downstream of".
func mustRerun(c *sim.Case, recorded map[string]string) map[string]bool {
	R := map[string]bool{}
	for _, s := range c.Steps {
		switch recorded[s.Name] {
		case "failed", "canceled", "running", "not started":
			R[s.Name] = true
		}
	}
	for changed := true; changed; {
		changed = false
		for _, s := range c.Steps {
			if R[s.Name] {
				continue
			}
			for _, d := range s.Depends {
				if R[d] {
					R[s.Name] = true
					changed = true
				}
			}
		}
	}
	return R
}

// OnlyOrder restricts the verdict to the dependency-order clause (C01's stage on
// retry runs: what is re-executed and how often is C10's and C03's business).
var OnlyOrder bool

func judge(c2 *sim.Case, r *sim.Result, recorded map[string]string) string {
	R := mustRerun(c2, recorded)
	if OnlyOrder {
		kept := map[string]bool{}
		for i := range c2.Steps {
			if !R[c2.Steps[i].Name] {
				kept[c2.Steps[i].Name] = true
			}
		}
		if msg := sim.JudgeC01Kept(c2, r, kept); msg != "" {
			return "dependency order violated during the retry: " + msg
		}
		return ""
	}
	an := sim.Analyze(r.Trace)
	kept := map[string]bool{}
	for i := range c2.Steps {
		s := &c2.Steps[i]
		ex := sim.Executed(an, s.Name)
		f := r.Final[s.Name]
		if !R[s.Name] {
			kept[s.Name] = true
			if ex != 0 || (an[s.Name] != nil && len(an[s.Name].Creates) > 0) {
				return fmt.Sprintf("step %q was recorded %q with nothing unfinished upstream, but the retry executed it %d time(s)", s.Name, recorded[s.Name], ex)
			}
			if f.Status != recorded[s.Name] {
				return fmt.Sprintf("step %q was recorded %q and must keep its result, but is %q after the retry", s.Name, recorded[s.Name], f.Status)
			}
			continue
		}
		if f.Status == "not started" || f.Status == "running" {
			return fmt.Sprintf("step %q (recorded %q, must be re-executed) is still %q after the retry ended", s.Name, recorded[s.Name], f.Status)
		}
		e := sim.Expect(c2, r, s)
		switch {
		case e.Blocked:
			if ex != 0 {
				return fmt.Sprintf("step %q executed %d time(s) in the retry although a dependency blocks it", s.Name, ex)
			}
			if f.Status != "canceled" && f.Status != "skipped" {
				return fmt.Sprintf("step %q blocked by a dependency in the retry but reported %q", s.Name, f.Status)
			}
		case !e.Runnable:
			if ex != 0 || f.Status != e.State {
				return fmt.Sprintf("step %q (set-up fails) expected %q and no execution, got %q / %d", s.Name, e.State, f.Status, ex)
			}
		default:
			if ex < 1 {
				return fmt.Sprintf("step %q was recorded %q (or is downstream of an unfinished step) and nothing blocks it, but the retry never executed it (now %q)", s.Name, recorded[s.Name], f.Status)
			}
			// a step recorded "not started" in the middle of its own retry wait
			// (a stop or crash during the wait) keeps the retries it had used:
			// whether those count against the retry run is not stated anywhere,
			// so with a finite failure script only its execution is required.
			midRetry := recorded[s.Name] == "not started" && recordedRetries[s.Name] > 0
			if midRetry && s.FailFirst > 0 {
				continue
			}
			if f.Status != e.State {
				return fmt.Sprintf("step %q: retry script dictates %q, reported %q (%s)", s.Name, e.State, f.Status, f.Err)
			}
			// a re-executed step starts afresh: it gets its full retry budget
			// again and records the retries of this run (a step recorded "not
			// started" in the middle of its own retry wait is left out: whether
			// its earlier attempts count is not stated).
			if !midRetry {
				if ex != e.Attempts {
					return fmt.Sprintf("step %q (recorded %q with retry count %d) was executed %d time(s) in the retry, its script and retry limit %d dictate exactly %d", s.Name, recorded[s.Name], recordedRetries[s.Name], ex, s.RetryLimit, e.Attempts)
				}
				if f.RetryCount != ex-1 {
					return fmt.Sprintf("step %q: the retry made %d extra attempt(s) but records retry count %d (recorded run had %d)", s.Name, ex-1, f.RetryCount, recordedRetries[s.Name])
				}
			}
		}
	}
	if msg := sim.JudgeC01Kept(c2, r, kept); msg != "" {
		return "dependency order violated during the retry: " + msg
	}
	return ""
}

func vectorKey(recorded map[string]string) string {
	var ks []string
	for k, v := range recorded {
		ks = append(ks, k+"="+v)
	}
	sort.Strings(ks)
	return strings.Join(ks, ",")
}

// Check runs the case and judges it; failures are reported under property id / sub.
func Check(t rep.Fataler, ID, sub string, c Case) {
	js, how, err := record(&c)
	if err != nil {
		if strings.Contains(err.Error(), "did not end") {
			rep.Inconclusive(err.Error())
			return
		}
		rep.Fail(t, ID, sub, c, nil, "original run could not be prepared: %v", err)
	}
	bound := sim.DefaultBound(&c.Orig)
	r, recorded, c2, err := retry(&c, js, bound)
	if err != nil {
		rep.Fail(t, ID, sub, c, map[string]any{"recorded": recorded}, "retry of a recorded run refused: %v", err)
	}
	if r.Hang {
		// bounded liveness: confirm with a 5x bound on the same recorded vector
		// (once a hang has been confirmed in this process the library is only
		// minimising that case: no further confirmation passes)
		if !sim.HangSeen() {
			r, recorded, c2, err = retry(&c, js, 5*bound)
		}
		if err == nil && r.Hang {
			sim.NoteHang()
			c.Vector = recorded
			rep.Fail(t, ID, sub, c, map[string]any{"recorded": recorded, "retry": r}, "the retry of the recorded vector {%s} never terminates: %s", vectorKey(recorded), r.HangInfo)
		}
		if err != nil {
			rep.Inconclusive("retry confirm run failed to prepare")
			return
		}
	}
	if msg := judge(c2, r, recorded); msg != "" {
		c.Vector = recorded
		rep.Fail(t, ID, sub, c, map[string]any{"recorded": recorded, "retry": r}, "recorded {%s}: %s", vectorKey(recorded), msg)
	}
	R := mustRerun(c2, recorded)
	key := ""
	if len(R) > 0 && len(R) < len(c2.Steps) {
		key = rep.Hash(c.Orig.Key() + "|" + vectorKey(recorded) + "|" + r.Order)
	}
	labels := []string{"cut:" + how}
	seen := map[string]bool{}
	for _, v := range recorded {
		if !seen[v] {
			seen[v] = true
			labels = append(labels, "vector-has:"+v)
		}
	}
	switch {
	case len(R) == 0:
		labels = append(labels, "rerun:none")
	case len(R) == len(c2.Steps):
		labels = append(labels, "rerun:all")
	default:
		labels = append(labels, "rerun:proper-subset")
	}
	rep.Eval(key, labels...)
	if key != "" && rep.WantSample() {
		rep.Sample(map[string]any{"steps": c.Orig.Steps, "recorded": recorded, "mustRerun": keys(R), "retryOrder": r.Order, "final": r.Final})
	}
}

func keys(m map[string]bool) []string {
	var ks []string
	for k := range m {
		ks = append(ks, k)
	}
	sort.Strings(ks)
	return ks
}

