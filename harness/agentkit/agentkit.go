// Package agentkit builds a private blackdagger "home" (DAGs, data, logs,
// suspend-flag directories under the case's scratch directory) with the real
// data stores and client, and runs the real agent in-process on it. It is what
// cmd/start.go, cmd/retry.go and cmd/restart.go do, minus the CLI layer.
package agentkit

import (
	"context"
	"fmt"
	"os"
	"path/filepath"
	"strings"
	"sync"
	"sync/atomic"

	"github.com/ErdemOzgen/blackdagger/internal/agent"
	"github.com/ErdemOzgen/blackdagger/internal/client"
	"github.com/ErdemOzgen/blackdagger/internal/dag"
	"github.com/ErdemOzgen/blackdagger/internal/persistence"
	dsclient "github.com/ErdemOzgen/blackdagger/internal/persistence/client"
	"github.com/ErdemOzgen/blackdagger/internal/persistence/jsondb"
	"github.com/ErdemOzgen/blackdagger/internal/persistence/local"
	"github.com/ErdemOzgen/blackdagger/internal/persistence/model"
	"github.com/ErdemOzgen/blackdagger/verifharness/sim"
)

// Home is one private installation.
type Home struct {
	Dir, DAGs, Data, Logs, Flags string
	Executable                   string
	DS                           persistence.DataStores
	Cli                          client.Client

	mu      sync.Mutex
	tracked []*trackedStores
}

var reqSeq atomic.Int64

// NewHome creates the directories and the real stores. executable is what
// client.New spawns for start/retry/restart (a recorder stand-in or the real
// binary; may be empty when the case never spawns).
func NewHome(executable string) (*Home, error) {
	dir, err := os.MkdirTemp(sim.ScratchRoot(), "vhome")
	if err != nil {
		return nil, err
	}
	h := &Home{Dir: dir, DAGs: filepath.Join(dir, "dags"), Data: filepath.Join(dir, "data"), Logs: filepath.Join(dir, "logs"),
		Flags: filepath.Join(dir, "suspend"), Executable: executable}
	for _, d := range []string{h.DAGs, h.Data, h.Logs, h.Flags} {
		if err := os.MkdirAll(d, 0o755); err != nil {
			return nil, err
		}
	}
	h.DS = h.NewDataStores()
	h.Cli = client.New(h.DS, executable, dir, sim.Quiet)
	return h, nil
}

// NewDataStores returns a fresh instance of the real stores over the same
// directories (a different process would have its own).
func (h *Home) NewDataStores() persistence.DataStores {
	t := &trackedStores{inner: dsclient.NewDataStores(h.DAGs, h.Data, h.Flags, dsclient.DataStoreOptions{LatestStatusToday: false})}
	h.mu.Lock()
	h.tracked = append(h.tracked, t)
	h.mu.Unlock()
	return t
}

// trackedStores remembers which of the lazily created stores exist, so that
// Cleanup can end their cache eviction goroutines (each keeps its cache — and
// every definition cached in it — alive for the life of the process; a test
// process creates thousands of store instances where a real one creates one).
type trackedStores struct {
	inner    persistence.DataStores
	mu       sync.Mutex
	hist     persistence.HistoryStore
	dagStore persistence.DAGStore
}

func (t *trackedStores) HistoryStore() persistence.HistoryStore {
	t.mu.Lock()
	defer t.mu.Unlock()
	if t.hist == nil {
		t.hist = t.inner.HistoryStore()
	}
	return t.hist
}

func (t *trackedStores) DAGStore() persistence.DAGStore {
	t.mu.Lock()
	defer t.mu.Unlock()
	if t.dagStore == nil {
		t.dagStore = t.inner.DAGStore()
	}
	return t.dagStore
}

func (t *trackedStores) FlagStore() persistence.FlagStore { return t.inner.FlagStore() }

func (t *trackedStores) stop() {
	t.mu.Lock()
	defer t.mu.Unlock()
	if j, ok := t.hist.(*jsondb.JSONDB); ok && j != nil {
		j.VerifStop()
	}
	if t.dagStore != nil {
		local.VerifStop(t.dagStore)
	}
	t.hist, t.dagStore = nil, nil
}

// Cleanup removes the home and releases the stores created through it.
func (h *Home) Cleanup() {
	h.mu.Lock()
	ts := h.tracked
	h.tracked = nil
	h.mu.Unlock()
	for _, t := range ts {
		t.stop()
	}
	os.RemoveAll(h.Dir)
}

// WriteDAG writes a definition file and returns its path.
func (h *Home) WriteDAG(name, yaml string) (string, error) {
	p := filepath.Join(h.DAGs, name+".yaml")
	return p, os.WriteFile(p, []byte(yaml), 0o644)
}

// NextReqID returns a request id unique in its first 8 characters.
func NextReqID() string {
	n := reqSeq.Add(1)
	return fmt.Sprintf("%08x-verif-%d", n, os.Getpid())
}

// NewAgent builds the real agent as the CLI commands do.
func (h *Home) NewAgent(reqID string, d *dag.DAG, opts *agent.Options) *agent.Agent {
	if opts == nil {
		opts = &agent.Options{}
	}
	logFile := filepath.Join(h.Logs, "agent_"+d.Name+"."+reqID+".log")
	// every run is its own process in production: it gets its own instance of
	// the stores (the history store keeps the open run's writer in the instance)
	ds := h.NewDataStores()
	return agent.New(reqID, d, sim.Quiet, h.Logs, logFile, client.New(ds, h.Executable, h.Dir, sim.Quiet), ds, opts)
}

// Start loads the file with the parameter override (as `start -p` does after
// its quote stripping) and runs it to the end. It returns the request id.
func (h *Home) Start(ctx context.Context, file, params string) (string, *dag.DAG, error) {
	d, err := dag.Load("", file, params)
	if err != nil {
		return "", nil, fmt.Errorf("load: %w", err)
	}
	id := NextReqID()
	return id, d, h.NewAgent(id, d, nil).Run(ctx)
}

// Retry does what cmd/retry.go does: find the recorded run, reload the
// definition with the recorded parameter string, run with RetryTarget.
func (h *Home) Retry(ctx context.Context, file, reqID string) (string, *dag.DAG, *model.Status, error) {
	sf, err := h.DS.HistoryStore().FindByRequestID(file, reqID)
	if err != nil {
		return "", nil, nil, fmt.Errorf("find recorded run: %w", err)
	}
	d, err := dag.Load("", file, sf.Status.Params)
	if err != nil {
		return "", nil, sf.Status, fmt.Errorf("load with recorded params %q: %w", sf.Status.Params, err)
	}
	id := NextReqID()
	return id, d, sf.Status, h.NewAgent(id, d, &agent.Options{RetryTarget: sf.Status}).Run(ctx)
}

// Restart does what cmd/restart.go does after the stop: reload with the
// parameters of the latest run and start again.
func (h *Home) Restart(ctx context.Context, file string) (string, *dag.DAG, error) {
	d0, err := dag.LoadWithoutEval(file) // identification only, as cmd/restart.go does
	if err != nil {
		return "", nil, err
	}
	st, err := h.Cli.GetLatestStatus(d0)
	if err != nil {
		return "", nil, fmt.Errorf("latest status: %w", err)
	}
	return h.Start(ctx, file, st.Params)
}

// EnvSnapshot / RestoreEnv reset the process environment between cases (the
// loader and the nodes export variables into the process).
func EnvSnapshot() []string { return os.Environ() }

// RestoreEnv makes the environment equal to the snapshot.
func RestoreEnv(snap []string) {
	want := map[string]string{}
	for _, kv := range snap {
		if i := strings.IndexByte(kv, '='); i > 0 {
			want[kv[:i]] = kv[i+1:]
		}
	}
	for _, kv := range os.Environ() {
		if i := strings.IndexByte(kv, '='); i > 0 {
			if _, ok := want[kv[:i]]; !ok {
				os.Unsetenv(kv[:i])
			}
		}
	}
	for k, v := range want {
		if os.Getenv(k) != v {
			os.Setenv(k, v)
		}
	}
}

// ParseEnv0 parses the output of `env -0`.
func ParseEnv0(b []byte) map[string]string {
	m := map[string]string{}
	for _, kv := range strings.Split(string(b), "\x00") {
		if i := strings.IndexByte(kv, '='); i > 0 {
			m[kv[:i]] = kv[i+1:]
		}
	}
	return m
}
