// C09 — the scheduler daemon starts each DAG exactly at its scheduled minutes.
// cronsim: simulated minute ticks against the real daemon objects
// (scheduler.New, the real entry reader and inotify watcher, the real job
// guard) with a recording fake of the client interface; the oracle is an
// independent cron matcher (harness/cronmodel).
package c09

import (
	"encoding/json"
	"fmt"
	"os"
	"path/filepath"
	"runtime"
	"sort"
	"strings"
	"sync"
	"testing"
	"time"

	"github.com/ErdemOzgen/blackdagger/internal/client"
	"github.com/ErdemOzgen/blackdagger/internal/config"
	"github.com/ErdemOzgen/blackdagger/internal/dag"
	dagscheduler "github.com/ErdemOzgen/blackdagger/internal/dag/scheduler"
	"github.com/ErdemOzgen/blackdagger/internal/persistence/model"
	"github.com/ErdemOzgen/blackdagger/internal/scheduler"
	"github.com/ErdemOzgen/blackdagger/internal/util"
	"github.com/ErdemOzgen/blackdagger/verifharness/cronmodel"
	"github.com/ErdemOzgen/blackdagger/verifharness/rep"
	"github.com/ErdemOzgen/blackdagger/verifharness/sim"
	"github.com/robfig/cron/v3"
	"gopkg.in/yaml.v2"
	"pgregory.net/rapid"
)

const ID = "C09"

func TestMain(m *testing.M) { rep.Main(m, ID) }

// ---------------------------------------------------------------- case

// DagSpec is one DAG file.
type DagSpec struct {
	Name    string   `json:"name"`
	Form    int      `json:"form"` // 0 string (first start expr only), 1 list, 2 start/stop/restart map
	Start   []string `json:"start,omitempty"`
	Stop    []string `json:"stop,omitempty"`
	Restart []string `json:"restart,omitempty"`
	Broken  int      `json:"broken,omitempty"` // 0 valid, 1 invalid cron expression, 2 not YAML, 3 wrong type
	Susp    bool     `json:"suspended,omitempty"`
	RunLen  int      `json:"runLen,omitempty"`  // ticks a started run stays running (0: finishes at once)
	History int      `json:"history,omitempty"` // 0 none, 1 older run, 2 run started in the very first tick's minute, 3 still running
	Yml     bool     `json:"yml,omitempty"`
	// NameField: 0 no `name:` in the file (the name is the file stem), 1 a name of its
	// own, 2 the file stem of the NEXT DAG (ids are file stems; names are only labels)
	NameField int `json:"nameField,omitempty"`
	nameValue string
}

// FileEvent happens between two segments.
type FileEvent struct {
	Kind   string   `json:"kind"` // add edit delete garbage suspend
	Dag    int      `json:"dag"`  // index into Dags (add: index of a DAG flagged Later)
	Start  []string `json:"start,omitempty"`
	Rename bool     `json:"rename,omitempty"` // written to a temporary name and renamed into place
}

// Segment is a run of consecutive ticks.
type Segment struct {
	GapMin   int         `json:"gapMin"`             // minutes skipped before the segment (daemon down / nothing to do)
	ToNext   int         `json:"toNext,omitempty"`   // >0: start 2 minutes before the next match of DAG (ToNext-1)'s first start schedule
	Len      int         `json:"len"`                // number of consecutive ticks
	LagMin   int         `json:"lagMin,omitempty"`   // late / bunched: all ticks of the segment are processed LagMin minutes after its last tick
	Restart  bool        `json:"restart,omitempty"`  // the daemon is restarted before the segment
	Events   []FileEvent `json:"events,omitempty"`   // file events before the segment
	Finish   bool        `json:"finish,omitempty"`   // every running run finishes before the segment
}

// Case is one simulated daemon life.
type Case struct {
	Dags     []DagSpec `json:"dags"`
	Later    []int     `json:"later,omitempty"` // indices of Dags that do not exist at the start (added by events)
	Anchor   string    `json:"anchor"`          // RFC3339 start minute
	Segments []Segment `json:"segments"`
}

var anchors = []string{
	"2024-02-28T23:50:00Z", "2023-02-28T23:50:00Z", "2023-12-31T23:50:00Z", "2024-04-30T23:55:00Z", "2024-03-31T00:00:00Z",
	"2024-06-15T11:58:00Z", "2024-01-01T00:00:00Z", "2024-02-29T00:00:00Z", "2024-07-07T06:55:00Z", "2025-01-31T23:00:00Z",
}

var monthN = []string{"jan", "feb", "mar", "apr", "may", "jun", "jul", "aug", "sep", "oct", "nov", "dec"}
var dowN = []string{"sun", "mon", "tue", "wed", "thu", "fri", "sat"}

func genItem(t *rapid.T, lo, hi int, names []string, label string) string {
	num := func(v int) string {
		if names != nil && rapid.IntRange(0, 3).Draw(t, label+"name") == 0 {
			s := names[v-lo]
			if rapid.Bool().Draw(t, label+"upper") {
				s = strings.ToUpper(s)
			}
			return s
		}
		return fmt.Sprint(v)
	}
	switch rapid.IntRange(0, 9).Draw(t, label+"kind") {
	case 0, 1, 2:
		return num(rapid.IntRange(lo, hi).Draw(t, label+"v"))
	case 3, 4:
		a := rapid.IntRange(lo, hi).Draw(t, label+"a")
		b := rapid.IntRange(a, hi).Draw(t, label+"b")
		return num(a) + "-" + num(b)
	case 5:
		return fmt.Sprintf("*/%d", rapid.IntRange(1, max(2, (hi-lo)/2)).Draw(t, label+"s"))
	case 6:
		a := rapid.IntRange(lo, hi).Draw(t, label+"a")
		b := rapid.IntRange(a, hi).Draw(t, label+"b")
		return fmt.Sprintf("%d-%d/%d", a, b, rapid.IntRange(1, 7).Draw(t, label+"s"))
	case 7:
		return fmt.Sprintf("%d/%d", rapid.IntRange(lo, hi).Draw(t, label+"a"), rapid.IntRange(1, 9).Draw(t, label+"s"))
	default:
		return "*"
	}
}

func genField(t *rapid.T, lo, hi int, names []string, label string, starBias int) string {
	if rapid.IntRange(0, 9).Draw(t, label+"star") < starBias {
		if label == "dom" || label == "dow" {
			return rapid.SampledFrom([]string{"*", "*", "?"}).Draw(t, label+"q")
		}
		return "*"
	}
	n := rapid.SampledFrom([]int{1, 1, 1, 2, 3}).Draw(t, label+"n")
	var items []string
	for i := 0; i < n; i++ {
		items = append(items, genItem(t, lo, hi, names, label))
	}
	return strings.Join(items, ",")
}

var neverMatching = []string{"0 0 30 2 *", "0 0 31 4,6 *", "5 5 31 feb,apr *", "* * 30,31 2 *"}

func genExpr(t *rapid.T, label string) string {
	switch rapid.IntRange(0, 19).Draw(t, label+"class") {
	case 0:
		return rapid.SampledFrom(neverMatching).Draw(t, label+"never")
	case 1, 2, 3:
		return "* * * * *"
	case 4, 5:
		return fmt.Sprintf("*/%d * * * *", rapid.IntRange(1, 7).Draw(t, label+"every"))
	case 6:
		return fmt.Sprintf("%d 0 %s * *", rapid.IntRange(0, 5).Draw(t, label+"m"), rapid.SampledFrom([]string{"1", "29", "30", "31", "28-31"}).Draw(t, label+"dom"))
	}
	return strings.Join([]string{
		genField(t, 0, 59, nil, "min", 4),
		genField(t, 0, 23, nil, "hour", 7),
		genField(t, 1, 31, nil, "dom", 7),
		genField(t, 1, 12, monthN, "month", 8),
		genField(t, 0, 6, dowN, "dow", 7),
	}, " ")
}

func genExprs(t *rapid.T, label string, minN, maxN int) []string {
	n := rapid.IntRange(minN, maxN).Draw(t, label+"n")
	var out []string
	for i := 0; i < n; i++ {
		out = append(out, genExpr(t, label))
	}
	return out
}

func gen(t *rapid.T) Case {
	c := Case{Anchor: rapid.SampledFrom(anchors).Draw(t, "anchor")}
	nd := rapid.IntRange(1, 5).Draw(t, "nDags")
	for i := 0; i < nd; i++ {
		d := DagSpec{Name: fmt.Sprintf("dag%d", i), Form: rapid.IntRange(0, 2).Draw(t, "form"), Yml: rapid.IntRange(0, 5).Draw(t, "yml") == 0}
		d.Start = genExprs(t, "start", 1, 3)
		if d.Form == 2 {
			d.Stop = genExprs(t, "stop", 0, 2)
			d.Restart = genExprs(t, "restart", 0, 1)
		}
		switch rapid.IntRange(0, 11).Draw(t, "broken") {
		case 0:
			d.Broken = 1
		case 1:
			d.Broken = 2
		case 2:
			d.Broken = 3
		}
		d.Susp = rapid.IntRange(0, 5).Draw(t, "susp") == 0
		d.RunLen = rapid.SampledFrom([]int{0, 0, 0, 1, 2, 5}).Draw(t, "runLen")
		d.History = rapid.IntRange(0, 3).Draw(t, "history")
		d.NameField = rapid.SampledFrom([]int{0, 0, 1, 2}).Draw(t, "nameField")
		c.Dags = append(c.Dags, d)
		if i > 0 && rapid.IntRange(0, 4).Draw(t, "later") == 0 {
			c.Later = append(c.Later, i)
		}
	}
	maxLen := 40
	nseg := rapid.IntRange(1, 6).Draw(t, "nSeg")
	if rep.Thorough() {
		maxLen, nseg = 200, rapid.IntRange(1, 12).Draw(t, "nSeg2")
	}
	for s := 0; s < nseg; s++ {
		seg := Segment{Len: rapid.IntRange(1, maxLen).Draw(t, "len")}
		switch rapid.IntRange(0, 6).Draw(t, "gapKind") {
		case 0, 1:
			seg.GapMin = 0
		case 2:
			seg.GapMin = rapid.IntRange(1, 5).Draw(t, "gapSmall")
		case 3:
			seg.GapMin = rapid.SampledFrom([]int{60, 1440, 1440 * 7, 1440 * 31}).Draw(t, "gapBig")
		default:
			seg.ToNext = 1 + rapid.IntRange(0, nd-1).Draw(t, "toNext")
		}
		if rapid.IntRange(0, 5).Draw(t, "late") == 0 {
			seg.LagMin = rapid.IntRange(1, 4).Draw(t, "lag")
		}
		seg.Restart = s > 0 && rapid.IntRange(0, 3).Draw(t, "restart") == 0
		seg.Finish = rapid.Bool().Draw(t, "finish")
		if s > 0 {
			ne := rapid.SampledFrom([]int{0, 0, 1, 2}).Draw(t, "nEvents")
			for e := 0; e < ne; e++ {
				ev := FileEvent{Kind: rapid.SampledFrom([]string{"add", "edit", "edit", "delete", "garbage", "suspend"}).Draw(t, "evKind"), Dag: rapid.IntRange(0, nd-1).Draw(t, "evDag"),
					Rename: rapid.Bool().Draw(t, "evRename")}
				if ev.Kind == "edit" || ev.Kind == "add" {
					ev.Start = genExprs(t, "evStart", 1, 2)
				}
				seg.Events = append(seg.Events, ev)
			}
		}
		c.Segments = append(c.Segments, seg)
	}
	return c
}

// ---------------------------------------------------------------- files

func (d *DagSpec) fileName() string {
	if d.Yml {
		return d.Name + ".yml"
	}
	return d.Name + ".yaml"
}

func render(d *DagSpec) []byte {
	if d.Broken == 2 {
		return []byte("schedule: [\n  - \"* * * * *\"\nsteps: {{{\n")
	}
	def := yaml.MapSlice{}
	if d.nameValue != "" {
		def = append(def, yaml.MapItem{Key: "name", Value: d.nameValue})
	}
	start := d.Start
	if d.Broken == 1 {
		start = append([]string{"61 * * * *"}, start...)
	}
	switch {
	case d.Broken == 3:
		def = append(def, yaml.MapItem{Key: "schedule", Value: map[string]any{"start": map[string]any{"x": 1}}})
	case d.Form == 0:
		def = append(def, yaml.MapItem{Key: "schedule", Value: start[0]})
	case d.Form == 1:
		def = append(def, yaml.MapItem{Key: "schedule", Value: start})
	default:
		m := yaml.MapSlice{{Key: "start", Value: start}}
		if len(d.Stop) > 0 {
			m = append(m, yaml.MapItem{Key: "stop", Value: d.Stop})
		}
		if len(d.Restart) > 0 {
			m = append(m, yaml.MapItem{Key: "restart", Value: d.Restart[0]})
		}
		def = append(def, yaml.MapItem{Key: "schedule", Value: m})
	}
	def = append(def, yaml.MapItem{Key: "steps", Value: []any{yaml.MapSlice{{Key: "name", Value: "s1"}, {Key: "command", Value: "true"}}}})
	b, _ := yaml.Marshal(def)
	return b
}

// effective schedules as the file states them
func (d *DagSpec) effective() (start, stop, restart []string) {
	if d.Broken != 0 {
		return nil, nil, nil // whatever the loader makes of a broken file, it carries none of the spec's schedules
	}
	switch d.Form {
	case 0:
		return d.Start[:1], nil, nil
	case 1:
		return d.Start, nil, nil
	}
	r := d.Restart
	if len(r) > 1 {
		r = r[:1]
	}
	return d.Start, d.Stop, r
}

// ---------------------------------------------------------------- fake client

type call struct {
	Tick string `json:"tick"`
	Kind string `json:"kind"`
	Dag  string `json:"dag"`
}

type dagState struct {
	hasRun       bool
	lastStart    time.Time
	runningUntil int // tick index (exclusive) until which the latest run is running
	suspended    bool
	runLen       int
}

type fake struct {
	client.Client // every other method panics: the daemon must not need it
	mu            sync.Mutex
	st            map[string]*dagState
	calls         []call
	tick          time.Time
	tickIdx       int
	wall          time.Time
	probe         bool
	sentinelSeen  map[string]bool
}

func base(d *dag.DAG) string {
	return strings.TrimSuffix(filepath.Base(d.Location), filepath.Ext(d.Location))
}

func (f *fake) state(n string) *dagState {
	s := f.st[n]
	if s == nil {
		s = &dagState{}
		f.st[n] = s
	}
	return s
}

func (f *fake) IsSuspended(id string) bool {
	f.mu.Lock()
	defer f.mu.Unlock()
	return f.state(id).suspended
}

func (f *fake) GetLatestStatus(d *dag.DAG) (*model.Status, error) {
	f.mu.Lock()
	defer f.mu.Unlock()
	n := base(d)
	if f.probe {
		st := model.NewStatusDefault(d)
		if !strings.HasPrefix(n, "zz_sentinel") {
			st.Status = dagscheduler.StatusRunning // nothing but the sentinel may act during a probe tick
		}
		return st, nil
	}
	s := f.state(n)
	if !s.hasRun {
		return model.NewStatusDefault(d), nil
	}
	st := model.NewStatusDefault(d)
	st.StartedAt = util.FormatTime(s.lastStart)
	st.Status = dagscheduler.StatusSuccess
	if f.tickIdx < s.runningUntil {
		st.Status = dagscheduler.StatusRunning
	}
	st.StatusText = st.Status.String()
	return st, nil
}

func (f *fake) record(kind string, d *dag.DAG) {
	n := base(d)
	if f.probe {
		if strings.HasPrefix(n, "zz_sentinel") && kind == "start" {
			f.sentinelSeen[n] = true
		}
		return
	}
	if strings.HasPrefix(n, "zz_sentinel") {
		return
	}
	f.calls = append(f.calls, call{f.tick.Format("2006-01-02T15:04"), kind, n})
	s := f.state(n)
	switch kind {
	case "start", "restart":
		s.hasRun, s.lastStart, s.runningUntil = true, f.wall, f.tickIdx+1+s.runLen
		if s.runLen == 0 {
			s.runningUntil = f.tickIdx // finishes at once
		}
	case "stop":
		s.runningUntil = f.tickIdx
	}
}

func (f *fake) Start(d *dag.DAG, _ client.StartOptions) error {
	// spawning the run's process takes a moment, during which the daemon's
	// other goroutines of the same tick go on
	time.Sleep(300 * time.Microsecond)
	f.mu.Lock()
	defer f.mu.Unlock()
	f.record("start", d)
	return nil
}

func (f *fake) Stop(d *dag.DAG) error {
	f.mu.Lock()
	defer f.mu.Unlock()
	f.record("stop", d)
	return nil
}

func (f *fake) Restart(d *dag.DAG, _ client.RestartOptions) error {
	time.Sleep(300 * time.Microsecond)
	f.mu.Lock()
	defer f.mu.Unlock()
	f.record("restart", d)
	return nil
}

// ---------------------------------------------------------------- simulation

type mdag struct {
	spec     DagSpec
	present  bool // a file exists
	loaded   bool // the daemon is expected to know a valid definition
	dontCare bool // overwritten with garbage while the daemon runs: stale definition may or may not be used
	start    []*cronmodel.Expr
	stop     []*cronmodel.Expr
	restart  []*cronmodel.Expr
	exprs    map[string][]string
	st       dagState
}

type simEnv struct {
	dir    string
	f      *fake
	sc     *scheduler.Scheduler
	done   chan any
	nSent  int
	labels map[string]bool
	g0     int // goroutines of the process before any daemon of this case existed
	syncBound time.Duration
}

// stopDaemon ends the watcher of the current daemon and waits until its
// goroutines are gone (the per-tick quiescence test counts goroutines, so no
// goroutine of an earlier daemon may linger).
func (e *simEnv) stopDaemon() {
	if e.done == nil {
		return
	}
	close(e.done)
	e.done = nil
	deadline := time.Now().Add(2 * time.Second)
	for runtime.NumGoroutine() > e.g0 && time.Now().Before(deadline) {
		time.Sleep(100 * time.Microsecond)
	}
}

func (e *simEnv) newDaemon() {
	e.stopDaemon()
	e.sc = scheduler.New(&config.Config{DAGs: e.dir, WorkDir: e.dir, Executable: "/bin/false", LogDir: filepath.Join(e.dir, "..", "log")}, sim.Quiet, e.f)
	e.done = make(chan any)
	e.sc.VerifStartWatcher(e.done)
	time.Sleep(3 * time.Millisecond) // the watcher goroutine registers the directory
}

// tick runs one daemon tick; false means the call did not return within the
// bound (bounded liveness: the bound is 5 s, then 15 s more).
func (e *simEnv) tick(t time.Time) bool {
	done := make(chan struct{})
	go func() { e.sc.VerifRunTick(t); close(done) }()
	select {
	case <-done:
		return true
	case <-time.After(5 * time.Second * time.Duration(sim.LoadFactor())):
	}
	select {
	case <-done:
		return true
	case <-time.After(15 * time.Second * time.Duration(sim.LoadFactor())):
		return false
	}
}

// quiesce waits until the goroutines of the last tick have ended.
func quiesce(baseline int) bool {
	deadline := time.Now().Add(3 * time.Second * time.Duration(sim.LoadFactor()))
	for time.Now().Before(deadline) {
		if runtime.NumGoroutine() <= baseline {
			return true
		}
		time.Sleep(50 * time.Microsecond)
	}
	return false
}

// syncWatcher returns once the watcher has processed every earlier file event
// (inotify delivers the events of one directory in order).
func (e *simEnv) syncWatcher() bool {
	e.nSent++
	name := fmt.Sprintf("zz_sentinel%d", e.nSent)
	path := filepath.Join(e.dir, name+".yaml")
	os.WriteFile(path, []byte("schedule: \"* * * * *\"\nsteps:\n  - name: s\n    command: \"true\"\n"), 0o644)
	e.f.mu.Lock()
	e.f.probe = true
	e.f.mu.Unlock()
	ok := false
	probeT := time.Date(2001, 1, 1, 0, 0, 0, 0, time.UTC)
	deadline := time.Now().Add(e.syncBound)
	for time.Now().Before(deadline) {
		base := runtime.NumGoroutine()
		if !e.tick(probeT) {
			break
		}
		quiesce(base)
		e.f.mu.Lock()
		seen := e.f.sentinelSeen[name]
		e.f.mu.Unlock()
		if seen {
			ok = true
			break
		}
		time.Sleep(200 * time.Microsecond)
	}
	os.Remove(path)
	e.f.mu.Lock()
	e.f.probe = false
	e.f.mu.Unlock()
	return ok
}

func parseAll(exprs []string) ([]*cronmodel.Expr, bool) {
	var out []*cronmodel.Expr
	for _, x := range exprs {
		e, err := cronmodel.Parse(x)
		if err != nil {
			return nil, false
		}
		out = append(out, e)
	}
	return out, true
}

func (m *mdag) install(spec DagSpec) {
	m.spec = spec
	st, sp, rs := spec.effective()
	m.exprs = map[string][]string{"start": st, "stop": sp, "restart": rs}
	var ok1, ok2, ok3 bool
	m.start, ok1 = parseAll(st)
	m.stop, ok2 = parseAll(sp)
	m.restart, ok3 = parseAll(rs)
	_ = ok1 && ok2 && ok3
}

func anyMatch(es []*cronmodel.Expr, t time.Time) bool {
	for _, e := range es {
		if e.Matches(t) {
			return true
		}
	}
	return false
}

var stdParser = cron.NewParser(cron.Minute | cron.Hour | cron.Dom | cron.Month | cron.Dow)

// libAgrees: the oracle's matcher and the library agree on (exprs, m). A
// disagreement is a matcher-vs-library question, never an alarm.
func libAgrees(exprs []string, m time.Time, mine bool) bool {
	lib := false
	for _, x := range exprs {
		s, err := stdParser.Parse(x)
		if err != nil {
			return false
		}
		if s.Next(m.Add(-time.Second)).Equal(m) {
			lib = true
		}
	}
	return lib == mine
}

type outcome struct {
	msg       string
	incon     string
	ticks     int
	starts    int
	suppress  int
	labels    map[string]bool
	calls     []call
	ambiguous int
}

func run(c Case) outcome {
	out := outcome{labels: map[string]bool{}}
	root, err := os.MkdirTemp(sim.ScratchRoot(), "vc09")
	if err != nil {
		out.msg = "harness: " + err.Error()
		return out
	}
	defer os.RemoveAll(root)
	dir := filepath.Join(root, "dags")
	os.MkdirAll(dir, 0o755)
	anchor, _ := time.Parse(time.RFC3339, c.Anchor)
	later := map[int]bool{}
	for _, i := range c.Later {
		later[i] = true
	}
	f := &fake{st: map[string]*dagState{}, sentinelSeen: map[string]bool{}}
	env := &simEnv{dir: dir, f: f, labels: out.labels, g0: runtime.NumGoroutine()}
	dags := make([]*mdag, len(c.Dags))
	validNow := func(spec *DagSpec) bool {
		_, err := dag.LoadYAML(render(spec))
		return err == nil
	}
	for i := range c.Dags {
		switch c.Dags[i].NameField {
		case 1:
			c.Dags[i].nameValue = "label-of-" + c.Dags[i].Name
		case 2:
			c.Dags[i].nameValue = c.Dags[(i+1)%len(c.Dags)].Name
		}
	}
	for i := range c.Dags {
		m := &mdag{}
		m.install(c.Dags[i])
		dags[i] = m
		spec := c.Dags[i]
		s := f.state(spec.Name)
		s.suspended, s.runLen = spec.Susp, spec.RunLen
		switch spec.History {
		case 1:
			s.hasRun, s.lastStart = true, anchor.Add(-48*time.Hour)
		case 2:
			s.hasRun, s.lastStart = true, anchor.Add(20*time.Second)
		case 3:
			s.hasRun, s.lastStart, s.runningUntil = true, anchor.Add(-time.Hour), 3
		}
		m.st = *s
		if later[i] {
			continue
		}
		os.WriteFile(filepath.Join(dir, spec.fileName()), render(&spec), 0o644)
		m.present = true
		m.loaded = validNow(&spec)
	}
	defer env.stopDaemon()
	env.newDaemon()

	t := anchor
	tickIdx := 0
	for si, seg := range c.Segments {
		if seg.Finish {
			f.mu.Lock()
			for _, s := range f.st {
				s.runningUntil = tickIdx
			}
			f.mu.Unlock()
			for _, m := range dags {
				m.st.runningUntil = tickIdx
			}
		}
		// file events
		for _, ev := range seg.Events {
			i := ev.Dag % len(dags)
			m := dags[i]
			switch ev.Kind {
			case "add", "edit":
				if ev.Kind == "add" && m.present {
					continue
				}
				if ev.Kind == "edit" && !m.present {
					continue
				}
				spec := m.spec
				spec.Start, spec.Broken = ev.Start, 0
				data := render(&spec)
				p := filepath.Join(dir, spec.fileName())
				if ev.Rename {
					tmp := p + ".tmp123"
					os.WriteFile(tmp, data, 0o644)
					os.Rename(tmp, p)
				} else {
					os.WriteFile(p, data, 0o644)
				}
				m.install(spec)
				m.present, m.dontCare = true, false
				m.loaded = validNow(&spec)
				out.labels["event:"+ev.Kind] = true
			case "delete":
				if !m.present {
					continue
				}
				os.Remove(filepath.Join(dir, m.spec.fileName()))
				m.present, m.loaded, m.dontCare = false, false, false
				out.labels["event:delete"] = true
			case "garbage":
				if !m.present {
					continue
				}
				os.WriteFile(filepath.Join(dir, m.spec.fileName()), []byte("schedule: [\nsteps: {{{\n"), 0o644)
				if m.loaded {
					m.dontCare = true // the daemon may keep using the last valid definition
				}
				m.spec.Broken = 2
				out.labels["event:garbage"] = true
			case "suspend":
				f.mu.Lock()
				s := f.state(m.spec.Name)
				s.suspended = !s.suspended
				m.st.suspended = s.suspended
				f.mu.Unlock()
				out.labels["event:suspend-toggle"] = true
			}
		}
		if seg.Restart {
			env.newDaemon()
			for _, m := range dags {
				if m.dontCare {
					m.dontCare, m.loaded = false, false // a fresh daemon cannot load the garbage
				}
			}
			out.labels["daemon-restart"] = true
		} else if len(seg.Events) > 0 {
			env.syncBound = 3 * time.Second * time.Duration(sim.LoadFactor())
			if !env.syncWatcher() {
				// bounded liveness, confirmed with a 5x bound: a DAG file added
				// while the daemon runs must get scheduled
				env.syncBound *= 5
				if !env.syncWatcher() {
					out.msg = fmt.Sprintf("before segment %d: a DAG file added to the directory %v ago is still not scheduled and earlier file events %v are not processed — the daemon no longer follows the DAGs directory", si, env.syncBound, evKinds(seg.Events))
					return out
				}
			}
		}
		// where the segment starts
		t = t.Add(time.Duration(seg.GapMin) * time.Minute)
		if seg.ToNext > 0 {
			m := dags[(seg.ToNext-1)%len(dags)]
			if ex := m.exprs["start"]; len(ex) > 0 {
				if s, err := stdParser.Parse(ex[0]); err == nil {
					if nx := s.Next(t); !nx.IsZero() && nx.Sub(t) < 400*24*time.Hour {
						if nt := nx.Add(-2 * time.Minute); nt.After(t) {
							t = nt
						}
					}
				}
			}
		}
		segEnd := t.Add(time.Duration(seg.Len-1) * time.Minute)
		for k := 0; k < seg.Len; k++ {
			wall := t
			if seg.LagMin > 0 {
				wall = segEnd.Add(time.Duration(seg.LagMin) * time.Minute)
				out.labels["late-or-bunched-ticks"] = true
			}
			f.mu.Lock()
			f.tick, f.tickIdx, f.wall = t, tickIdx, wall
			n0 := len(f.calls)
			f.mu.Unlock()
			scheduler.VerifSetFixedTime(wall)
			baseline := runtime.NumGoroutine()
			if !env.tick(t) {
				out.msg = fmt.Sprintf("the daemon's tick for minute %s (segment %d) did not return within 20 s — nothing is scheduled any more", t.Format("2006-01-02 15:04"), si)
				return out
			}
			if !quiesce(baseline) {
				out.incon = "the goroutines of a tick did not end within the bound"
				return out
			}
			f.mu.Lock()
			got := append([]call(nil), f.calls[n0:]...)
			f.mu.Unlock()
			if os.Getenv("VERIF_C09_DEBUG") != "" {
				time.Sleep(3 * time.Millisecond)
				f.mu.Lock()
				if len(f.calls[n0:]) != len(got) {
					fmt.Fprintf(os.Stderr, "DEBUG late call at tick %s: baseline=%d now=%d\n", t, baseline, runtime.NumGoroutine())
				}
				f.mu.Unlock()
			}
			out.ticks++
			// judge this tick
			cnt := map[string]int{}
			for _, cl := range got {
				cnt[cl.Kind+" "+cl.Dag]++
			}
			for _, m := range dags {
				n := m.spec.Name
				gs, gp, gr := cnt["start "+n], cnt["stop "+n], cnt["restart "+n]
				desc := fmt.Sprintf("tick %s (wall %s, segment %d) DAG %s", t.Format("2006-01-02 15:04 Mon"), wall.Format("15:04"), si, n)
				if !m.loaded && !m.dontCare {
					if gs+gp+gr > 0 {
						out.msg = fmt.Sprintf("%s: %d start / %d stop / %d restart issued although the DAG has no loadable definition (present=%v)", desc, gs, gp, gr, m.present)
						return out
					}
					continue
				}
				if m.dontCare {
					// keep the model in step with whatever the daemon did
					f.mu.Lock()
					m.st = *f.state(n)
					f.mu.Unlock()
					out.ambiguous++
					continue
				}
				mStart, mStop, mRestart := anyMatch(m.start, t), anyMatch(m.stop, t), anyMatch(m.restart, t)
				if !libAgrees(m.exprs["start"], t, mStart) || !libAgrees(m.exprs["stop"], t, mStop) || !libAgrees(m.exprs["restart"], t, mRestart) {
					out.incon = fmt.Sprintf("oracle self-check: the independent matcher and the library disagree on %v at %s", m.exprs, t)
					return out
				}
				running := tickIdx < m.st.runningUntil
				if m.st.suspended {
					if gs > 0 {
						out.msg = fmt.Sprintf("%s is suspended but a start was issued", desc)
						return out
					}
					f.mu.Lock()
					m.st = *f.state(n)
					f.mu.Unlock()
					continue
				}
				kinds := 0
				for _, b := range []bool{mStart, mStop, mRestart} {
					if b {
						kinds++
					}
				}
				if kinds > 1 {
					// start / stop / restart of one DAG in the same minute run concurrently: the
					// order is unspecified, so starts and stops are not judged — but a restart
					// schedule issues its restart at every matching minute whatever else is due
					if (mRestart && gr != 1) || (!mRestart && gr > 0) {
						out.msg = fmt.Sprintf("%s: %d restart(s) issued, expected %v (restart schedules %v; start match=%v stop match=%v in the same minute)", desc, gr, mRestart, m.exprs["restart"], mStart, mStop)
						return out
					}
					if mStop && !mStart && !mRestart && ((running && gp != 1) || (!running && gp > 0)) {
						out.msg = fmt.Sprintf("%s: %d stop(s) issued, running=%v", desc, gp, running)
						return out
					}
					f.mu.Lock()
					m.st = *f.state(n)
					f.mu.Unlock()
					out.ambiguous++
					continue
				}
				wantStart := mStart && !running && (!m.st.hasRun || m.st.lastStart.Truncate(time.Minute).Before(t))
				why := fmt.Sprintf("schedules %v match=%v, running=%v, last start %s", m.exprs["start"], mStart, running, lastStr(&m.st))
				switch {
				case wantStart && gs == 0:
					out.msg = fmt.Sprintf("%s: scheduled minute missed — no start issued (%s)", desc, why)
					return out
				case wantStart && gs > 1:
					out.msg = fmt.Sprintf("%s: started %d times for one scheduled minute (%s)", desc, gs, why)
					return out
				case !wantStart && gs > 0:
					out.msg = fmt.Sprintf("%s: start issued although it must not be (%s)", desc, why)
					return out
				}
				if wantStart {
					out.starts++
					m.st.hasRun, m.st.lastStart = true, wall
					m.st.runningUntil = tickIdx + 1 + m.st.runLen
					if m.st.runLen == 0 {
						m.st.runningUntil = tickIdx
					}
				} else if mStart {
					out.suppress++
				}
				wantStop := mStop && running
				if (wantStop && gp == 0) || (!wantStop && gp > 0) {
					out.msg = fmt.Sprintf("%s: %d stop(s) issued, expected %v (stop schedules %v match=%v, running=%v)", desc, gp, wantStop, m.exprs["stop"], mStop, running)
					return out
				}
				if wantStop {
					m.st.runningUntil = tickIdx
					out.labels["stop-issued"] = true
				}
				if (mRestart && gr == 0) || (!mRestart && gr > 0) {
					out.msg = fmt.Sprintf("%s: %d restart(s) issued, expected %v (restart schedules %v)", desc, gr, mRestart, m.exprs["restart"])
					return out
				}
				if mRestart {
					m.st.hasRun, m.st.lastStart = true, wall
					m.st.runningUntil = tickIdx + 1 + m.st.runLen
					if m.st.runLen == 0 {
						m.st.runningUntil = tickIdx
					}
					out.labels["restart-issued"] = true
				}
			}
			if t.Day() == 1 && t.Hour() == 0 && t.Minute() == 0 {
				out.labels["anchor:month-boundary-crossed"] = true
			}
			if t.Month() == 2 && t.Day() == 29 {
				out.labels["anchor:feb-29"] = true
			}
			// every minute is examined, in order, however late the daemon is: the
			// tick after minute M is M+1 (the daemon catches up minute by minute)
			nt := env.sc.VerifNextTick(t)
			if !nt.Equal(t.Add(time.Minute)) {
				out.msg = fmt.Sprintf("after the tick for %s (wall clock %s) the daemon's next tick is %s: the minutes in between are never examined, whatever is scheduled in them is not started", t.Format("2006-01-02 15:04"), wall.Format("2006-01-02 15:04:05"), nt.Format("2006-01-02 15:04"))
				return out
			}
			t = nt
			tickIdx++
		}
	}
	f.mu.Lock()
	out.calls = append([]call(nil), f.calls...)
	f.mu.Unlock()
	scheduler.VerifSetFixedTime(time.Time{})
	return out
}

func evKinds(evs []FileEvent) []string {
	var k []string
	for _, e := range evs {
		k = append(k, e.Kind)
	}
	return k
}

func lastStr(s *dagState) string {
	if !s.hasRun {
		return "none"
	}
	return s.lastStart.Format("2006-01-02 15:04:05")
}

func check(t rep.Fataler, c Case) {
	o := run(c)
	if strings.HasPrefix(o.msg, "harness:") {
		t.Fatalf("%s", o.msg)
	}
	if o.incon != "" {
		rep.Inconclusive(o.incon)
		return
	}
	if o.msg != "" {
		// The daemon is deterministic in the files it sees and the ticks it is
		// given; what the harness observes of it (which calls belong to which
		// tick) rests on goroutine quiescence, which a heavily loaded machine can
		// blur. A verdict has to show up on a second execution of the same case;
		// one that does not is inconclusive, with its message.
		o2 := run(c)
		if o2.msg == "" && o2.incon == "" {
			rep.Inconclusive("observed once, not on an identical second execution: " + o.msg)
			return
		}
		if o2.msg != "" {
			o = o2
		}
		rep.Fail(t, ID, "cronsim", c, map[string]any{"ticks": o.ticks}, "%s", o.msg)
	}
	key := ""
	if (o.starts > 0 && o.suppress > 0) || o.labels["anchor:month-boundary-crossed"] || o.labels["anchor:feb-29"] || o.labels["event:edit"] || o.labels["event:add"] || o.labels["event:delete"] || o.labels["event:garbage"] {
		key = rep.Hash(c)
	}
	var ls []string
	for l := range o.labels {
		ls = append(ls, l)
	}
	sort.Strings(ls)
	if o.starts > 0 {
		ls = append(ls, "start-issued")
	}
	if o.suppress > 0 {
		ls = append(ls, "start-suppressed-by-guard")
	}
	for _, d := range c.Dags {
		for _, x := range d.Start {
			for _, nm := range neverMatching {
				if x == nm {
					ls = append(ls, "expr:never-matching")
				}
			}
		}
		if d.Broken != 0 {
			ls = append(ls, fmt.Sprintf("file:broken-%d", d.Broken))
		}
	}
	rep.Eval(key, ls...)
	if key != "" && rep.WantSample() {
		var files []string
		for i := range c.Dags {
			files = append(files, c.Dags[i].fileName()+": "+strings.SplitN(string(render(&c.Dags[i])), "steps:", 2)[0])
		}
		nc := o.calls
		if len(nc) > 12 {
			nc = nc[:12]
		}
		rep.Sample(map[string]any{"anchor": c.Anchor, "files": files, "segments": c.Segments, "ticks": o.ticks, "firstCalls": nc})
	}
}

func TestProp(t *testing.T) {
	rapid.Check(t, func(t *rapid.T) { check(t, gen(t)) })
}

// TestMatcher cross-checks the oracle's matcher with the library over the
// generated grammar and calendar anchors (oracle self-check: a disagreement is
// reported as inconclusive, it is never a violation of the property).
func TestMatcher(t *testing.T) {
	n, bad := 0, 0
	rapid.Check(t, func(t *rapid.T) {
		x := genExpr(t, "x")
		mine, err1 := cronmodel.Parse(x)
		lib, err2 := stdParser.Parse(x)
		if (err1 == nil) != (err2 == nil) {
			bad++
			rep.Inconclusive(fmt.Sprintf("oracle self-check: validity of %q differs (mine: %v, library: %v)", x, err1, err2))
			return
		}
		if err1 != nil {
			return
		}
		a, _ := time.Parse(time.RFC3339, rapid.SampledFrom(anchors).Draw(t, "a"))
		a = a.Add(time.Duration(rapid.IntRange(-3000, 600000).Draw(t, "off")) * time.Minute)
		for k := 0; k < 200; k++ {
			m := a.Add(time.Duration(k) * time.Minute)
			if mine.Matches(m) != lib.Next(m.Add(-time.Second)).Equal(m) {
				bad++
				rep.Inconclusive(fmt.Sprintf("oracle self-check: %q at %s: mine=%v library-next=%s", x, m, mine.Matches(m), lib.Next(m.Add(-time.Second))))
				return
			}
			n++
		}
	})
	rep.Label(fmt.Sprintf("matcher-selfcheck-minutes-compared:%d-disagreements:%d", n/1000*1000, bad))
}

func TestReplay(t *testing.T) {
	p := rep.ReplayPath()
	if p == "" {
		t.Skip("no VERIF_REPLAY")
	}
	cf, err := rep.LoadCase(p)
	if err != nil {
		t.Fatal(err)
	}
	var c Case
	if err := json.Unmarshal(cf.Case, &c); err != nil {
		t.Fatal(err)
	}
	for i := 0; i < rep.EnvInt("VERIF_REPLAY_REPS", 20); i++ {
		check(t, c)
	}
}
