package c03

import (
	"context"
	"os"
	"path/filepath"
	"testing"
	"time"

	"github.com/ErdemOzgen/blackdagger/internal/agent"
	"github.com/ErdemOzgen/blackdagger/internal/dag"
	"github.com/ErdemOzgen/blackdagger/verifharness/agentkit"
	"github.com/ErdemOzgen/blackdagger/verifharness/rep"
	"github.com/ErdemOzgen/blackdagger/verifharness/sim"
	"pgregory.net/rapid"
)

// Agent-level dry run: `blackdagger dry` = agent.Run with Options{Dry: true}.
// Nothing may be executed (steps AND handlers), nothing may be recorded.
// DryCase: a generated DAG plus its own (DAG-level) preconditions: 0 none, 1 met, 2 unmet.
type DryCase struct {
	Dag    sim.Case `json:"dag"`
	DagPre int      `json:"dagPre"`
}

func checkDry(t rep.Fataler, dc DryCase) {
	c := dc.Dag
	rep.Begin(ID, "dry", dc)
	snap := agentkit.EnvSnapshot()
	defer agentkit.RestoreEnv(snap)
	h, err := agentkit.NewHome("/bin/false")
	if err != nil {
		t.Fatalf("home: %v", err)
	}
	defer h.Cleanup()
	pre := ""
	switch dc.DagPre {
	case 1:
		pre = "preconditions:\n  - condition: \"1\"\n    expected: \"1\"\n"
	case 2:
		pre = "preconditions:\n  - condition: \"1\"\n    expected: \"1\"\n  - condition: \"0\"\n    expected: \"1\"\n"
	}
	file, _ := h.WriteDAG("dry", pre+sim.YAML(&c, 0, "p1 X=2"))
	d, err := dag.Load("", file, "")
	if err != nil {
		rep.Fail(t, ID, "dry", dc, nil, "generated definition rejected: %v", err)
	}
	_, scripts := sim.BuildSteps(&c)
	w := sim.NewWorld(scripts)
	done := make(chan error, 1)
	go func() { done <- h.NewAgent(agentkit.NextReqID(), d, &agent.Options{Dry: true}).Run(context.Background()) }()
	var runErr error
	select {
	case runErr = <-done:
	case <-time.After(30 * time.Second * time.Duration(sim.LoadFactor())):
		w.ReleaseAll()
		rep.Fail(t, ID, "dry", dc, map[string]any{"trace": w.Trace()}, "dry run did not end within 30 s")
	}
	if tr := w.Trace(); len(tr) > 0 {
		rep.Fail(t, ID, "dry", dc, map[string]any{"trace": tr}, "dry run created / executed %d executor event(s), first: %s of %q", len(tr), tr[0].Kind, tr[0].Step)
	}
	if runs := h.NewDataStores().HistoryStore().ReadStatusRecent(file, 5); len(runs) > 0 {
		rep.Fail(t, ID, "dry", dc, nil, "dry run recorded %d run(s) in the history", len(runs))
	}
	n := 0
	filepath.Walk(h.Data, func(p string, info os.FileInfo, err error) error {
		if err == nil && !info.IsDir() {
			n++
		}
		return nil
	})
	if n > 0 {
		rep.Fail(t, ID, "dry", dc, nil, "dry run left %d file(s) in the data directory", n)
	}
	if runErr != nil && dc.DagPre != 2 {
		rep.Fail(t, ID, "dry", dc, nil, "dry run of a valid DAG returned an error: %v", runErr)
	}
	key := ""
	if len(c.Handlers) > 0 && c.Depth() >= 2 {
		key = rep.Hash("agent-dry|" + c.Key())
	}
	rep.Eval(key, "agent-dry", []string{"dry:no-dag-preconditions", "dry:dag-preconditions-met", "dry:dag-preconditions-unmet"}[dc.DagPre%3])
	if key != "" && rep.WantSample() {
		rep.Sample(map[string]any{"stage": "dry", "steps": c.Steps, "handlers": c.Handlers})
	}
}

func TestDry(t *testing.T) {
	rapid.Check(t, func(t *rapid.T) {
		c := sim.Gen(t, sim.GenOpts{MaxSteps: 5, Retries: true, Preconds: true, Handlers: true})
		c.Stop, c.TimeoutP, c.Dry = nil, 0, false
		for i := range c.Steps {
			c.Steps[i].SetupFail = false
		}
		checkDry(t, DryCase{Dag: c, DagPre: rapid.IntRange(0, 2).Draw(t, "dagPre")})
	})
}
