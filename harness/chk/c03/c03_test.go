// C03 — exactly once, bounded retries, dry-run runs nothing (scheduler level).
package c03

import (
	"fmt"
	"encoding/json"
	"testing"

	"github.com/ErdemOzgen/blackdagger/verifharness/rep"
	"github.com/ErdemOzgen/blackdagger/verifharness/retrysim"
	"github.com/ErdemOzgen/blackdagger/verifharness/sim"
	"pgregory.net/rapid"
)

const ID = "C03"

func TestMain(m *testing.M) { rep.Main(m, ID) }

func opts() sim.GenOpts {
	o := sim.GenOpts{MaxSteps: 7, Retries: true, Preconds: true, Handlers: true, Redirects: true, DevFull: true}
	if rep.Thorough() {
		o.MaxSteps = 12
	}
	return o
}

func check(t rep.Fataler, c sim.Case) {
	r := sim.RunConfirm(c)
	if r.GraphErr != "" {
		rep.Fail(t, ID, "sched", c, r, "valid generated DAG refused: %s", r.GraphErr)
	}
	if r.Hang {
		rep.Inconclusive("run did not end: " + r.HangInfo)
		return
	}
	if c.Dry {
		for _, ev := range r.Trace {
			if ev.Kind == sim.EvCreate || ev.Kind == sim.EvEnter {
				rep.Fail(t, ID, "sched-dry", c, r, "dry run executed %s of %q", ev.Kind, ev.Step)
			}
		}
		if r.Status != "finished" {
			rep.Fail(t, ID, "sched-dry", c, r, "dry run reported %q, expected finished", r.Status)
		}
		key := ""
		if len(c.Handlers) > 0 && c.Depth() >= 2 {
			key = rep.Hash("dry|" + c.Key())
		}
		rep.Eval(key, "dry")
		return
	}
	if msg := sim.JudgeC03(&c, r); msg != "" {
		rep.Fail(t, ID, "sched", c, r, "%s", msg)
	}
	key := ""
	if sim.NontrivialC03(&c, r) {
		key = rep.Hash(c.Key() + "|" + r.Order)
	}
	labels := []string{}
	an := sim.Analyze(r.Trace)
	for _, s := range c.Steps {
		if s.RetryLimit >= 0 {
			n := sim.Executed(an, s.Name)
			switch {
			case n == 0:
			case s.FailFirst >= 0 && s.FailFirst < s.RetryLimit:
				labels = append(labels, "k<limit")
			case s.FailFirst == s.RetryLimit:
				labels = append(labels, "k==limit")
			default:
				labels = append(labels, "k>limit")
			}
			if n >= 2 {
				labels = append(labels, "retried")
			}
		}
	}
	labels = append(labels, map[int]string{0: "done:nil", 1: "done:prompt", 2: "done:slow"}[c.Done])
	rep.Eval(key, labels...)
	if key != "" && rep.WantSample() {
		rep.Sample(map[string]any{"case": c, "order": r.Order, "final": r.Final})
	}
}

// TestExhaustive: small-scope exhaustive tier. Every DAG on <= 2 (quick) / <= 3
// (thorough) steps x every declaration order x continueOn x outcome, under
// FIFO, LIFO and all-at-once completion schedules, sharded by index.
func TestExhaustive(t *testing.T) {
	shard, nsh := rep.EnvInt("VERIF_SHARD", 0), rep.EnvInt("VERIF_NSHARDS", 1)
	maxN := 2
	if rep.Thorough() {
		maxN = 3
	}
	total := 0
	for n := 1; n <= maxN; n++ {
		for sched := 0; sched < 3; sched++ {
			sim.Enumerate(n, sched, func(i int, c sim.Case) {
				total++
				if i%nsh != shard {
					return
				}
				check(t, c)
			})
		}
	}
	if shard == 0 {
		rep.ExhaustiveSpace(fmt.Sprintf("every DAG on 1..%d steps x declaration order x continueOn{none,failure,skipped,both} x outcome{ok,fail,precondition unmet} x 3 canonical schedules (%d cases)", maxN, total))
	}
}

func TestProp(t *testing.T) {
	rapid.Check(t, func(t *rapid.T) {
		c := sim.Gen(t, opts())
		c.Dry = rapid.IntRange(0, 9).Draw(t, "dry") == 0
		check(t, c)
	})
}

// TestRetryRun: exactly-once and the retry bound also hold in a run that
// retries a recorded run (steps kept are not executed at all, re-executed
// steps get a fresh retry budget and record the retries of this run).
func TestRetryRun(t *testing.T) {
	rapid.Check(t, func(t *rapid.T) { retrysim.Check(t, ID, "retryrun", retrysim.Gen(t)) })
}

func TestReplay(t *testing.T) {
	p := rep.ReplayPath()
	if p == "" {
		t.Skip("no VERIF_REPLAY")
	}
	cf, err := rep.LoadCase(p)
	if err != nil {
		t.Fatal(err)
	}
	if cf.Sub == "dry" {
		var dc DryCase
		if err := json.Unmarshal(cf.Case, &dc); err != nil {
			t.Fatal(err)
		}
		checkDry(t, dc)
		return
	}
	if cf.Sub == "retryrun" {
		var rc retrysim.Case
		if err := json.Unmarshal(cf.Case, &rc); err != nil {
			t.Fatal(err)
		}
		for i := 0; i < 20; i++ {
			retrysim.Check(t, ID, "retryrun", rc)
		}
		return
	}
	var c sim.Case
	if err := json.Unmarshal(cf.Case, &c); err != nil {
		t.Fatal(err)
	}
	for i := 0; i < rep.EnvInt("VERIF_REPLAY_REPS", 300); i++ {
		check(t, c)
	}
}
