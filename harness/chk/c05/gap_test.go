package c05

import (
	"context"
	"encoding/json"
	"fmt"
	"syscall"
	"testing"
	"time"

	"github.com/ErdemOzgen/blackdagger/internal/dag"
	"github.com/ErdemOzgen/blackdagger/verifharness/agentkit"
	"github.com/ErdemOzgen/blackdagger/verifharness/rep"
	"github.com/ErdemOzgen/blackdagger/verifharness/sim"
	"pgregory.net/rapid"
)

// Agent level on the scripted executor: the stop request goes through the
// agent (status socket or forwarded signal) at instants at which NO step is
// executing — between the end of one step and the launch of the next (the
// scheduler polls every 100 ms), while a step waits out its retry interval,
// right at the start — as well as while steps execute. Once the stop has been
// accepted no step that had not started may start, the run ends canceled and
// the cancel and exit handlers run.

// GapCase is one agent-level stop instant.
type GapCase struct {
	Steps     int  `json:"steps"`     // chain length 2..4
	After     int  `json:"after"`     // stop after the exit of this step (0-based); -1: right after the run came up
	DelayMS   int  `json:"delayMS"`   // delay between that exit and the stop request
	ViaSocket bool `json:"viaSocket"` // client.Stop (socket) or Agent.Signal
	Retry     bool `json:"retry"`     // the step after which we stop fails once and has a retry policy (stop lands in its retry wait)
}

func checkGap(t rep.Fataler, c GapCase) {
	rep.Begin(ID, "gap", c)
	snap := agentkit.EnvSnapshot()
	defer agentkit.RestoreEnv(snap)
	h, err := agentkit.NewHome("/bin/false")
	if err != nil {
		t.Fatalf("home: %v", err)
	}
	defer h.Cleanup()
	sc := sim.Case{PauseUS: 100000, Handlers: map[string]*sim.HandlerSpec{"onCancel": {}, "onExit": {}, "onSuccess": {}}}
	names := []string{"a", "b", "c", "d"}
	for i := 0; i < c.Steps; i++ {
		s := sim.StepSpec{Name: names[i], RetryLimit: -1}
		if i > 0 {
			s.Depends = []string{names[i-1]}
		}
		if c.Retry && i == c.After {
			s.RetryLimit, s.FailFirst = 1, 1
		}
		sc.Steps = append(sc.Steps, s)
	}
	y := sim.YAML(&sc, 0, "")
	if c.Retry {
		// a retry interval long enough for the stop to land inside it
		y = replaceOnce(y, "intervalSec: 0", "intervalSec: 1")
	}
	file, _ := h.WriteDAG("gap", y)
	d, err := dag.Load("", file, "")
	if err != nil {
		rep.Fail(t, ID, "gap", c, map[string]any{"yaml": y}, "definition rejected: %v", err)
	}
	_, scripts := sim.BuildSteps(&sc)
	for k, s := range scripts {
		s.SelfExit = true
		scripts[k] = s
	}
	w := sim.NewWorld(scripts)
	ag := h.NewAgent(agentkit.NextReqID(), d, nil)
	stopIssued := make(chan struct{})
	var stopRetSeq int
	doStop := func() {
		time.Sleep(time.Duration(c.DelayMS) * time.Millisecond)
		w.Record(sim.EvStopCall)
		if c.ViaSocket {
			if err := h.Cli.Stop(d); err != nil {
				ag.Signal(syscall.SIGTERM)
			}
			// the socket handler answers at once and signals in the background:
			// give the accepted request a moment to take effect
			time.Sleep(20 * time.Millisecond)
		} else {
			go ag.Signal(syscall.SIGTERM)
			time.Sleep(20 * time.Millisecond)
		}
		stopRetSeq = w.Record(sim.EvStopRet).Seq
		close(stopIssued)
	}
	fired := false
	w.AddHook(func(w *sim.World, ev sim.Event, a *sim.Attempt) {
		if fired {
			return
		}
		if c.After >= 0 && ev.Kind == sim.EvExit && ev.Step == names[c.After] && ev.Attempt == 1 {
			fired = true
			go doStop()
		}
		if c.After < 0 && ev.Kind == sim.EvCreate {
			fired = true
			go doStop()
		}
	})
	done := make(chan error, 1)
	go func() { done <- ag.Run(context.Background()) }()
	select {
	case <-done:
	case <-time.After(60 * time.Second * time.Duration(sim.LoadFactor())):
		w.ReleaseAll()
		rep.Fail(t, ID, "gap", c, map[string]any{"trace": w.Trace()}, "the run did not end within 60 s after a stop request")
	}
	select {
	case <-stopIssued:
	case <-time.After(5 * time.Second):
		rep.Inconclusive("the stop instant was never reached")
		return
	}
	tr := w.Trace()
	an := sim.Analyze(tr)
	for i := 0; i < c.Steps; i++ {
		st := an[names[i]]
		if st == nil {
			continue
		}
		for att, en := range st.EnterOf {
			first := true
			for a2 := range st.EnterOf {
				if a2 < att {
					first = false
				}
			}
			// slack: a launch that the loop had already decided on races the stop;
			// anything entering later than one polling period after the stop returned is a new decision
			if first && en > stopRetSeq {
				usOf := map[int]int64{}
				for _, ev := range tr {
					usOf[ev.Seq] = ev.US
				}
				if usOf[en]-usOf[stopRetSeq] > 150000 {
					rep.Fail(t, ID, "gap", c, map[string]any{"trace": tr}, "step %q had not started when the stop request had been accepted, yet its command was started %d ms later", names[i], (usOf[en]-usOf[stopRetSeq])/1000)
				}
			}
		}
	}
	runs := h.NewDataStores().HistoryStore().ReadStatusRecent(file, 1)
	if len(runs) != 1 {
		rep.Fail(t, ID, "gap", c, nil, "the stopped run is not recorded")
	}
	last := an[names[c.Steps-1]]
	allRan := last != nil && len(last.Exits) > 0 && last.ExitErr[len(last.Exits)] == ""
	status := runs[0].Status.Status.String()
	if !allRan {
		if status != "canceled" {
			rep.Fail(t, ID, "gap", c, map[string]any{"trace": tr}, "a stop request was accepted while steps remained unexecuted, yet the run is recorded %q, expected canceled", status)
		}
		for _, hn := range []string{"onCancel", "onExit"} {
			if ht := an[hn]; ht == nil || len(ht.Enters) != 1 {
				rep.Fail(t, ID, "gap", c, map[string]any{"trace": tr}, "after the stop the %s handler was not executed exactly once (run recorded %q)", hn, status)
			}
		}
	}
	inGap := c.After >= 0
	key := rep.Hash(c)
	label := "stop-instant:at-start"
	switch {
	case c.Retry:
		label = "stop-instant:retry-wait"
	case inGap:
		label = "stop-instant:between-steps"
	}
	rep.Eval(key, label, map[bool]string{true: "stop:socket", false: "stop:signal"}[c.ViaSocket], "gap-final:"+status)
	if rep.WantSample() {
		rep.Sample(map[string]any{"stage": "gap", "case": c, "final": status})
	}
}

func replaceOnce(s, old, new string) string {
	for i := 0; i+len(old) <= len(s); i++ {
		if s[i:i+len(old)] == old {
			return s[:i] + new + s[i+len(old):]
		}
	}
	return s
}

func TestGap(t *testing.T) {
	rapid.Check(t, func(t *rapid.T) {
		c := GapCase{Steps: rapid.IntRange(2, 4).Draw(t, "steps"), ViaSocket: rapid.Bool().Draw(t, "viaSocket")}
		c.After = rapid.IntRange(-1, c.Steps-2).Draw(t, "after")
		c.DelayMS = rapid.SampledFrom([]int{0, 3, 10, 40, 80}).Draw(t, "delayMS")
		c.Retry = c.After >= 0 && rapid.IntRange(0, 3).Draw(t, "retry") == 0
		if c.Retry {
			c.DelayMS = rapid.SampledFrom([]int{50, 300, 700}).Draw(t, "delayRetry")
		}
		checkGap(t, c)
	})
}

func replayGap(t *testing.T, raw json.RawMessage) {
	var c GapCase
	if err := json.Unmarshal(raw, &c); err != nil {
		t.Fatal(err)
	}
	for i := 0; i < 3; i++ {
		checkGap(t, c)
	}
}

var _ = fmt.Sprint
