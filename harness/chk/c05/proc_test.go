package c05

import (
	"context"
	"encoding/json"
	"fmt"
	"os"
	"path/filepath"
	"strconv"
	"strings"
	"syscall"
	"testing"
	"time"

	"github.com/ErdemOzgen/blackdagger/internal/dag"
	"github.com/ErdemOzgen/blackdagger/internal/dag/scheduler"
	"github.com/ErdemOzgen/blackdagger/verifharness/rep"
	"github.com/ErdemOzgen/blackdagger/verifharness/sim"
	"pgregory.net/rapid"
)

// Layer 2 (scheduler level, REAL processes through the real command executor):
// the step processes are shell pipelines that obey or ignore the stop signal,
// alone or with children in their process group that keep the output pipe
// open. The harness issues the stop and, after the clean-up time, the SIGKILL
// escalation exactly as Agent.signal does.

// ProcStep is one real step.
type ProcStep struct {
	Name string `json:"name"`
	// Kind: "obey" (dies on the stop signal), "ignore" (the whole group ignores
	// SIGTERM), "ignore+child" (ignores, plus a background child in the group
	// holding the output pipe), "obey+child" (the shell dies, a background child
	// that ignores SIGTERM keeps the pipe open), "quick" (exits by itself at once)
	Kind     string `json:"kind"`
	SignalOn string `json:"signalOnStop,omitempty"`
	Depends  bool   `json:"depends,omitempty"` // depends on the previous step (stays unstarted at the stop)
	Output   bool   `json:"output,omitempty"`  // output: variable (capture pipe)
}

// ProcCase is one real-process stop case.
type ProcCase struct {
	Steps     []ProcStep `json:"steps"`
	CleanupMS int        `json:"cleanupMS"` // stop -> SIGKILL escalation delay
	Handlers  bool       `json:"handlers,omitempty"`
	Timeout   bool       `json:"timeout,omitempty"` // DAG timeout instead of a stop request
}

func genProc(t *rapid.T) ProcCase {
	n := rapid.IntRange(1, 3).Draw(t, "n")
	c := ProcCase{CleanupMS: rapid.SampledFrom([]int{150, 400}).Draw(t, "cleanup"), Handlers: rapid.Bool().Draw(t, "handlers")}
	c.Timeout = rapid.IntRange(0, 4).Draw(t, "timeout") == 0
	for i := 0; i < n; i++ {
		s := ProcStep{Name: string(rune('a' + i))}
		s.Kind = rapid.SampledFrom([]string{"obey", "obey", "ignore", "ignore+child", "obey+child", "quick"}).Draw(t, "kind")
		if rapid.IntRange(0, 3).Draw(t, "sos") == 0 {
			s.SignalOn = rapid.SampledFrom([]string{"SIGINT", "SIGHUP", "SIGTERM"}).Draw(t, "sosName")
		}
		s.Depends = i > 0 && rapid.IntRange(0, 2).Draw(t, "dep") == 0
		s.Output = rapid.IntRange(0, 3).Draw(t, "output") == 0
		c.Steps = append(c.Steps, s)
	}
	return c
}

func script(kind, pidfile string) string {
	// the trap list covers every signal the stop may be overridden with
	const ign = "trap '' TERM INT HUP; "
	switch kind {
	case "obey":
		return fmt.Sprintf("echo $$ > %s; exec sleep 30", pidfile)
	case "ignore":
		return fmt.Sprintf("%secho $$ > %s; sleep 30", ign, pidfile)
	case "ignore+child":
		return fmt.Sprintf("%ssleep 30 & echo $$ $! > %s; wait", ign, pidfile)
	case "obey+child":
		return fmt.Sprintf("(trap '' TERM INT HUP; exec sleep 30) & echo $$ $! > %s; exec sleep 30", pidfile)
	default:
		return fmt.Sprintf("echo $$ > %s", pidfile)
	}
}

type procResult struct {
	Hang    bool              `json:"hang,omitempty"`
	EndedMS int64             `json:"endedMS"`
	Status  string            `json:"status"`
	Final   map[string]string `json:"final"`
	Alive   []string          `json:"alive,omitempty"`
	Markers map[string]bool   `json:"markers"`
}

func alive(pid int) bool {
	if pid <= 1 {
		return false
	}
	b, err := os.ReadFile(fmt.Sprintf("/proc/%d/stat", pid))
	if err != nil {
		return false
	}
	// state is the field after the parenthesised command name; Z = zombie (dead, unreaped)
	s := string(b)
	if i := strings.LastIndexByte(s, ')'); i >= 0 && i+2 < len(s) {
		return s[i+2] != 'Z'
	}
	return true
}

func runProc(c ProcCase, bound time.Duration) *procResult {
	dir, err := os.MkdirTemp(sim.ScratchRoot(), "vc05p")
	if err != nil {
		return &procResult{Status: "harness: " + err.Error()}
	}
	defer os.RemoveAll(dir)
	var steps []dag.Step
	for i, s := range c.Steps {
		st := dag.Step{Name: s.Name, Command: "sh", Args: []string{"-c", script(s.Kind, filepath.Join(dir, s.Name+".pid"))}, SignalOnStop: s.SignalOn}
		if s.Depends {
			st.Depends = []string{c.Steps[i-1].Name}
		}
		if s.Output {
			st.Output = "VERIF_C05_" + strings.ToUpper(s.Name)
		}
		steps = append(steps, st)
	}
	g, err := scheduler.NewExecutionGraph(sim.Quiet, steps...)
	if err != nil {
		return &procResult{Status: "harness: " + err.Error()}
	}
	cfg := &scheduler.Config{LogDir: filepath.Join(dir, "logs"), Logger: sim.Quiet, ReqID: "verifreq-c05"}
	marker := func(n string) *dag.Step {
		return &dag.Step{Name: n, Command: "touch", Args: []string{filepath.Join(dir, n+".ran")}}
	}
	if c.Handlers {
		cfg.OnCancel, cfg.OnFailure, cfg.OnExit, cfg.OnSuccess = marker("onCancel"), marker("onFailure"), marker("onExit"), marker("onSuccess")
	}
	if c.Timeout {
		cfg.Timeout = time.Duration(c.CleanupMS) * time.Millisecond
	}
	sc := scheduler.New(cfg)
	sc.VerifSetPause(time.Millisecond)
	resCh := make(chan error, 1)
	t0 := time.Now()
	go func() {
		ctx := dag.NewContext(context.Background(), &dag.DAG{Name: "verif-c05"}, nil, "verifreq-c05", filepath.Join(dir, "sched.log"))
		resCh <- sc.Schedule(ctx, g, nil)
	}()
	// wait until every root step has written its pid file (its process runs)
	roots := 0
	for _, s := range c.Steps {
		if !s.Depends {
			roots++
		}
	}
	deadline := time.Now().Add(5 * time.Second * time.Duration(sim.LoadFactor()))
	for time.Now().Before(deadline) {
		n := 0
		for _, s := range c.Steps {
			if !s.Depends {
				if _, err := os.Stat(filepath.Join(dir, s.Name+".pid")); err == nil {
					n++
				}
			}
		}
		if n == roots {
			break
		}
		time.Sleep(2 * time.Millisecond)
	}
	res := &procResult{Final: map[string]string{}, Markers: map[string]bool{}}
	stopAt := time.Now()
	if !c.Timeout {
		sc.Signal(g, syscall.SIGTERM, nil, true)
		go func() {
			// what Agent.signal does when the clean-up time has elapsed
			time.Sleep(time.Duration(c.CleanupMS) * time.Millisecond)
			sc.Signal(g, syscall.SIGKILL, nil, false)
		}()
	} else {
		stopAt = t0.Add(cfg.Timeout)
	}
	select {
	case <-resCh:
		res.EndedMS = time.Since(stopAt).Milliseconds()
	case <-time.After(bound):
		res.Hang = true
	}
	// collect pids and kill whatever is left (clean-up of the harness itself)
	for _, s := range c.Steps {
		b, err := os.ReadFile(filepath.Join(dir, s.Name+".pid"))
		if err != nil {
			continue
		}
		for _, f := range strings.Fields(string(b)) {
			pid, _ := strconv.Atoi(f)
			if s.Kind != "quick" {
				// give the kernel a moment to finish delivering SIGKILL
				for k := 0; k < 100 && !res.Hang && alive(pid); k++ {
					time.Sleep(5 * time.Millisecond)
				}
				if alive(pid) {
					res.Alive = append(res.Alive, fmt.Sprintf("%s:%d", s.Name, pid))
				}
			}
			if pid > 1 {
				_ = syscall.Kill(pid, syscall.SIGKILL)
			}
		}
	}
	if res.Hang {
		select {
		case <-resCh:
		case <-time.After(500 * time.Millisecond):
		}
	}
	res.Status = sc.Status(g).String()
	for _, n := range g.Nodes() {
		res.Final[n.Data().Step.Name] = n.State().Status.String()
	}
	for _, h := range []string{"onCancel", "onFailure", "onExit", "onSuccess"} {
		if _, err := os.Stat(filepath.Join(dir, h+".ran")); err == nil {
			res.Markers[h] = true
		}
	}
	for _, kv := range os.Environ() {
		if strings.HasPrefix(kv, "VERIF_C05_") || (strings.HasPrefix(kv, "STEP_") && strings.Contains(kv, "_DAG_EXECUTION_LOG_PATH=")) {
			os.Unsetenv(kv[:strings.IndexByte(kv, '=')])
		}
	}
	return res
}

func checkProc(t rep.Fataler, c ProcCase) {
	rep.Begin(ID, "proc", c)
	lf := time.Duration(sim.LoadFactor())
	bound := (time.Duration(c.CleanupMS)*time.Millisecond + 4*time.Second) * lf
	r := runProc(c, bound)
	if strings.HasPrefix(r.Status, "harness:") {
		t.Fatalf("%s", r.Status)
	}
	if r.Hang {
		r = runProc(c, 3*bound)
		if r.Hang {
			rep.Fail(t, ID, "proc", c, r, "the run had not ended %v after the stop (clean-up time %d ms, SIGKILL escalation issued): step processes still alive: %v", 3*bound, c.CleanupMS, r.Alive)
		}
	}
	allQuick := true
	for _, s := range c.Steps {
		if s.Kind != "quick" && !s.Depends {
			allQuick = false
		}
	}
	if len(r.Alive) > 0 {
		rep.Fail(t, ID, "proc", c, r, "the run ended but processes of its steps are still alive: %v", r.Alive)
	}
	for i, s := range c.Steps {
		if s.Depends && c.Steps[i-1].Kind != "quick" {
			if _, ok := r.Final[s.Name]; ok && r.Final[s.Name] == "finished" {
				rep.Fail(t, ID, "proc", c, r, "step %q had not started when the run was stopped but is reported finished", s.Name)
			}
		}
	}
	if !allQuick {
		if r.Status == "finished" {
			rep.Fail(t, ID, "proc", c, r, "stopped/timed-out run with unfinished steps reported finished")
		}
		if c.Handlers && !r.Markers["onExit"] {
			rep.Fail(t, ID, "proc", c, r, "the exit handler's command did not run after the stop/timeout (status %s)", r.Status)
		}
		if c.Handlers && !c.Timeout && r.Status == "canceled" && !r.Markers["onCancel"] {
			rep.Fail(t, ID, "proc", c, r, "the cancel handler's command did not run after the stop")
		}
	}
	key := ""
	labels := []string{}
	for _, s := range c.Steps {
		labels = append(labels, "kind:"+s.Kind)
		if s.Kind == "ignore" || s.Kind == "ignore+child" || s.Kind == "obey+child" {
			key = rep.Hash(c)
		}
	}
	if c.Timeout {
		labels = append(labels, "cause:timeout")
	} else {
		labels = append(labels, "cause:stop")
	}
	rep.Eval(key, labels...)
	if key != "" && rep.WantSample() {
		rep.Sample(map[string]any{"stage": "proc", "case": c, "result": r})
	}
}

func TestProc(t *testing.T) {
	rapid.Check(t, func(t *rapid.T) { checkProc(t, genProc(t)) })
}

func replayProc(t *testing.T, raw json.RawMessage) {
	var c ProcCase
	if err := json.Unmarshal(raw, &c); err != nil {
		t.Fatal(err)
	}
	for i := 0; i < 3; i++ {
		checkProc(t, c)
	}
}
