package c05

import (
	"context"
	"encoding/json"
	"fmt"
	"os"
	"path/filepath"
	"strconv"
	"strings"
	"syscall"
	"testing"
	"time"

	"github.com/ErdemOzgen/blackdagger/internal/dag"
	"github.com/ErdemOzgen/blackdagger/verifharness/agentkit"
	"github.com/ErdemOzgen/blackdagger/verifharness/rep"
	"github.com/ErdemOzgen/blackdagger/verifharness/sim"
	"pgregory.net/rapid"
)

// Layer 3 (agent level, REAL processes): the real agent runs a DAG of shell
// steps in-process; the stop arrives the way it does in production — through
// the status socket (`blackdagger stop` = client.Stop) or as the signal the
// CLI's handler forwards (Agent.Signal) — and the agent's own escalation
// (SIGKILL after maxCleanUpTimeSec) has to bring the run to an end.

// AgentStop is one agent-level stop case.
type AgentStop struct {
	Steps      []ProcStep `json:"steps"`
	CleanupSec int        `json:"cleanupSec"`
	ViaSocket  bool       `json:"viaSocket"`
}

func checkAgentStop(t rep.Fataler, c AgentStop) {
	rep.Begin(ID, "agent", c)
	snap := agentkit.EnvSnapshot()
	defer agentkit.RestoreEnv(snap)
	h, err := agentkit.NewHome("/bin/false")
	if err != nil {
		t.Fatalf("home: %v", err)
	}
	defer h.Cleanup()
	work := filepath.Join(h.Dir, "work")
	os.MkdirAll(work, 0o755)
	y := fmt.Sprintf("maxCleanUpTimeSec: %d\nsteps:\n", c.CleanupSec)
	for i, s := range c.Steps {
		y += fmt.Sprintf("  - name: %s\n    command: sh\n    script: |\n      %s\n", s.Name, script(s.Kind, filepath.Join(work, s.Name+".pid")))
		if s.SignalOn != "" {
			y += "    signalOnStop: " + s.SignalOn + "\n"
		}
		if s.Depends && i > 0 {
			y += "    depends: [" + c.Steps[i-1].Name + "]\n"
		}
	}
	y += fmt.Sprintf("handlerOn:\n  cancel:\n    command: touch %s\n  exit:\n    command: touch %s\n", filepath.Join(work, "onCancel.ran"), filepath.Join(work, "onExit.ran"))
	file, _ := h.WriteDAG("c05agent", y)
	d, err := dag.Load("", file, "")
	if err != nil {
		rep.Fail(t, ID, "agent", c, map[string]any{"yaml": y}, "definition rejected: %v", err)
	}
	id := agentkit.NextReqID()
	ag := h.NewAgent(id, d, nil)
	done := make(chan error, 1)
	go func() { done <- ag.Run(context.Background()) }()
	// wait until every root step's process runs
	roots := 0
	for _, s := range c.Steps {
		if !s.Depends {
			roots++
		}
	}
	deadline := time.Now().Add(10 * time.Second * time.Duration(sim.LoadFactor()))
	for time.Now().Before(deadline) {
		n := 0
		for _, s := range c.Steps {
			if !s.Depends {
				if _, err := os.Stat(filepath.Join(work, s.Name+".pid")); err == nil {
					n++
				}
			}
		}
		if n == roots {
			break
		}
		time.Sleep(5 * time.Millisecond)
	}
	t0 := time.Now()
	if c.ViaSocket {
		if err := h.Cli.Stop(d); err != nil {
			rep.Inconclusive("stop request over the socket failed: " + err.Error())
			ag.Signal(syscall.SIGTERM)
		}
	} else {
		go ag.Signal(syscall.SIGTERM)
	}
	// the agent polls in 3 s steps and escalates after the clean-up time
	slack := 6 * time.Second * time.Duration(sim.LoadFactor())
	bound := time.Duration(c.CleanupSec)*time.Second + 3*time.Second + slack
	ended := false
	select {
	case <-done:
		ended = true
	case <-time.After(bound):
	}
	took := time.Since(t0)
	var alive []string
	for _, s := range c.Steps {
		b, err := os.ReadFile(filepath.Join(work, s.Name+".pid"))
		if err != nil {
			continue
		}
		for _, f := range strings.Fields(string(b)) {
			pid, _ := strconv.Atoi(f)
			if s.Kind != "quick" {
				for k := 0; k < 100 && ended && alive_(pid); k++ {
					time.Sleep(5 * time.Millisecond)
				}
				if alive_(pid) {
					alive = append(alive, fmt.Sprintf("%s:%d", s.Name, pid))
				}
			}
			if pid > 1 {
				_ = syscall.Kill(pid, syscall.SIGKILL)
			}
		}
	}
	obs := map[string]any{"tookMS": took.Milliseconds(), "alive": alive}
	if !ended {
		// processes are killed now; let the run finish so that nothing leaks
		select {
		case <-done:
		case <-time.After(10 * time.Second):
		}
		rep.Fail(t, ID, "agent", c, obs, "the stopped run had not ended %v after the stop request (maxCleanUpTimeSec=%d): step processes still alive: %v", bound, c.CleanupSec, alive)
	}
	if len(alive) > 0 {
		rep.Fail(t, ID, "agent", c, obs, "the run ended but processes of its steps are still alive: %v", alive)
	}
	allQuick := true
	for _, s := range c.Steps {
		if s.Kind != "quick" && !s.Depends {
			allQuick = false
		}
	}
	if !allQuick {
		sf, err := h.NewDataStores().HistoryStore().FindByRequestID(file, id)
		if err != nil {
			rep.Fail(t, ID, "agent", c, obs, "the stopped run is not in the history: %v", err)
		}
		if st := sf.Status.Status.String(); st != "canceled" {
			rep.Fail(t, ID, "agent", c, obs, "the stopped run is recorded %q, expected canceled", st)
		}
		for _, m := range []string{"onCancel", "onExit"} {
			if _, err := os.Stat(filepath.Join(work, m+".ran")); err != nil {
				rep.Fail(t, ID, "agent", c, obs, "after the stop the %s handler's command did not run", m)
			}
		}
	}
	key := ""
	labels := []string{map[bool]string{true: "stop:socket", false: "stop:signal"}[c.ViaSocket]}
	for _, s := range c.Steps {
		labels = append(labels, "agent-kind:"+s.Kind)
		if strings.HasPrefix(s.Kind, "ignore") || s.Kind == "obey+child" {
			key = rep.Hash(c)
		}
	}
	rep.Eval(key, labels...)
	if key != "" && rep.WantSample() {
		rep.Sample(map[string]any{"stage": "agent", "case": c, "tookMS": took.Milliseconds()})
	}
}

func alive_(pid int) bool { return alive(pid) }

func TestAgentStop(t *testing.T) {
	rapid.Check(t, func(t *rapid.T) {
		n := rapid.IntRange(1, 2).Draw(t, "n")
		c := AgentStop{CleanupSec: rapid.IntRange(1, 2).Draw(t, "cleanup"), ViaSocket: rapid.Bool().Draw(t, "viaSocket")}
		for i := 0; i < n; i++ {
			s := ProcStep{Name: string(rune('a' + i))}
			s.Kind = rapid.SampledFrom([]string{"obey", "ignore", "ignore", "ignore+child", "obey+child"}).Draw(t, "kind")
			if rapid.IntRange(0, 3).Draw(t, "sos") == 0 {
				s.SignalOn = rapid.SampledFrom([]string{"SIGINT", "SIGHUP"}).Draw(t, "sosName")
			}
			s.Depends = i > 0 && rapid.IntRange(0, 2).Draw(t, "dep") == 0
			c.Steps = append(c.Steps, s)
		}
		checkAgentStop(t, c)
	})
}

func replayAgentStop(t *testing.T, raw json.RawMessage) {
	var c AgentStop
	if err := json.Unmarshal(raw, &c); err != nil {
		t.Fatal(err)
	}
	// the escalation used to depend on a coin toss: repeat
	for i := 0; i < rep.EnvInt("VERIF_AGENTSTOP_REPS", 3); i++ {
		checkAgentStop(t, c)
	}
}
