// C05 — stop and timeout always bring a run to an end (layer 1: scheduler level,
// scripted executor).
package c05

import (
	"encoding/json"
	"fmt"
	"testing"

	"github.com/ErdemOzgen/blackdagger/verifharness/rep"
	"github.com/ErdemOzgen/blackdagger/verifharness/sim"
	"pgregory.net/rapid"
)

const ID = "C05"

func TestMain(m *testing.M) { rep.Main(m, ID) }

func opts() sim.GenOpts {
	o := sim.GenOpts{MaxSteps: 6, Retries: true, Preconds: true, Handlers: true, Stop: true, AlwaysStop: true,
		Repeat: true, IgnoreSig: true, SignalOn: true}
	if rep.Thorough() {
		o.MaxSteps = 10
	}
	return o
}

// Signatures of open known findings (see known_findings.json).
const (
	sigStartAfterStop = "C05-step-process-started-after-stop-accepted"
	sigNoForceKill    = "C05-ignoring-step-not-force-killed"
	sigTimeoutHandler = "C05-handlers-not-executed-after-timeout"
)

type verdict struct {
	msg string
	sig string // signature of the known finding this failure matches ("" = none)
}

func wantSig(s *sim.StepSpec) string {
	if s.SignalOn != "" {
		return s.SignalOn
	}
	return "SIGTERM"
}

func judgeStop(c *sim.Case, r *sim.Result) (verdict, []string) {
	var labels []string
	tr := r.Trace
	stopCall := sim.SeqOf(tr, sim.EvStopCall)
	stopRet := sim.SeqOf(tr, sim.EvStopRet)
	if stopCall < 0 {
		if r.Hang {
			return verdict{"run never ended (stop not reached; confirmed with 5x bound): " + r.HangInfo, ""}, labels
		}
		return verdict{}, append(labels, "stop-not-reached")
	}
	an := sim.Analyze(tr)
	openAtStop := 0
	for i := range c.Steps {
		s := &c.Steps[i]
		st := an[s.Name]
		if st == nil {
			continue
		}
		firstEnter := -1
		for _, en := range st.Enters {
			if firstEnter < 0 || en < firstEnter {
				firstEnter = en
			}
		}
		if s.Repeat {
			// (c) the open iteration is not signalled and no further iteration starts
			for _, k := range st.Kills {
				if k.Seq > stopCall && k.Sig != "SIGKILL" {
					return verdict{fmt.Sprintf("repeating step %q was sent %s by the stop request", s.Name, k.Sig), ""}, labels
				}
			}
			openIter := false
			after := 0
			for att, en := range st.EnterOf {
				ex, ok := st.ExitOf[att]
				if en < stopRet && (!ok || ex > stopRet) {
					openIter = true
				}
				if en > stopRet {
					after++
				}
			}
			if openIter {
				labels = append(labels, "repeat-open-at-stop")
			}
			// a stop that returned while the step was sleeping out its repeat
			// interval (strictly inside [exit, exit+interval)) must prevent the
			// next iteration: the pause lasts at least the interval, so the
			// loop's re-check of the cancel flag happens after the stop returned.
			if s.RepeatIvUS > 0 {
				usOf := map[int]int64{}
				for _, ev := range tr {
					usOf[ev.Seq] = ev.US
				}
				for att, en := range st.EnterOf {
					if att < 2 || en < stopRet {
						continue
					}
					if px, ok := st.ExitOf[att-1]; ok && px < stopCall && usOf[stopRet]+2 < usOf[px]+int64(s.RepeatIvUS) {
						return verdict{fmt.Sprintf("repeating step %q: the stop request returned %dus after iteration %d had ended, inside the %dus pause between iterations, yet iteration %d was started", s.Name, usOf[stopRet]-usOf[px], att-1, s.RepeatIvUS, att), ""}, labels
					}
				}
				for att, px := range st.ExitOf {
					if px < stopCall && usOf[stopRet]+2 < usOf[px]+int64(s.RepeatIvUS) {
						if _, more := st.EnterOf[att+1]; !more {
							labels = append(labels, "stop-inside-repeat-pause")
						}
					}
				}
			}
			if openIter && after > 0 {
				return verdict{fmt.Sprintf("repeating step %q started %d further iteration(s) after the stop request returned while an iteration was open at the stop", s.Name, after), ""}, labels
			}
			if after > 1 {
				return verdict{fmt.Sprintf("repeating step %q started %d iterations after the stop request returned", s.Name, after), ""}, labels
			}
			if after == 1 {
				labels = append(labels, "repeat-iteration-raced-stop(ambiguous)")
			}
			continue
		}
		// (a) no step that has not started is started once the stop is accepted
		if firstEnter > stopRet {
			return verdict{fmt.Sprintf("step %q had not started when the stop request returned (seq %d) but its command was started afterwards (seq %d)", s.Name, stopRet, firstEnter), sigStartAfterStop}, labels
		}
		// (b) every attempt open during the whole stop call gets the stop signal
		for att, en := range st.EnterOf {
			ex, ok := st.ExitOf[att]
			if en < stopCall && (!ok || ex > stopRet) {
				openAtStop++
				got := false
				for _, k := range st.Kills {
					if k.Attempt == att && k.Started && k.Seq > stopCall && k.Seq < stopRet {
						got = true
						if k.Sig != wantSig(s) {
							return verdict{fmt.Sprintf("step %q (signalOnStop=%q) was sent %s by the stop request", s.Name, s.SignalOn, k.Sig), ""}, labels
						}
					}
				}
				if !got {
					return verdict{fmt.Sprintf("attempt %d of step %q was executing during the whole stop request but was not sent the stop signal", att, s.Name), ""}, labels
				}
				if !s.IgnoreSig && ok {
					if e := st.ExitErr[att]; e == "" {
						// released by the harness at the same instant: fine
						labels = append(labels, "signalled-attempt-exited-by-release")
					}
				}
			}
		}
		// force-kill: an ignoring attempt still open when the escalation ran gets SIGKILL
		if kc, kr := sim.SeqOf(tr, sim.EvKillCall), sim.SeqOf(tr, sim.EvKillRet); kc >= 0 && kr >= 0 {
			for att, en := range st.EnterOf {
				ex, ok := st.ExitOf[att]
				if en < kc && (!ok || ex > kr) {
					got := false
					for _, k := range st.Kills {
						if k.Attempt == att && k.Sig == "SIGKILL" && k.Seq > kc {
							got = true
						}
					}
					if !got {
						return verdict{fmt.Sprintf("attempt %d of step %q was still executing when the clean-up time elapsed but was not sent SIGKILL", att, s.Name), sigNoForceKill}, labels
					}
					labels = append(labels, "force-killed")
				}
			}
		}
	}
	if openAtStop > 0 {
		labels = append(labels, "stop-with-open-attempts")
	}
	if r.Hang {
		// (d) the run must end. If the only thing outstanding is a signal-ignoring
		// attempt that was never force-killed, it is the force-kill clause.
		for _, s := range c.Steps {
			if s.IgnoreSig && s.Hold {
				st := an[s.Name]
				if st != nil && len(st.Enters) > len(st.Exits) {
					gotKill := false
					for _, k := range st.Kills {
						if k.Sig == "SIGKILL" && k.Started {
							gotKill = true
						}
					}
					if !gotKill && sim.SeqOf(tr, sim.EvKillRet) >= 0 {
						return verdict{fmt.Sprintf("step %q ignores the stop signal and was never sent SIGKILL although the clean-up time elapsed (force-kill call returned); the run never ends: %s", s.Name, r.HangInfo), sigNoForceKill}, labels
					}
				}
			}
		}
		return verdict{"stopped run never ended (confirmed with 5x bound): " + r.HangInfo, ""}, labels
	}
	// (d) label + handlers when the stop clearly preceded the end of the steps
	last := sim.LastStepEvent(tr)
	if stopRet < last || c.Stop.Trigger == "before" {
		want := "canceled"
		if sim.ExpectedOutcomeNoStop(c, r) == "finished" {
			want = "finished"
		}
		if msg := sim.JudgeHandlers(c, r, []string{want}); msg != "" {
			return verdict{msg, ""}, labels
		}
		labels = append(labels, "label-checked:"+want)
	}
	return verdict{}, labels
}

func judgeTimeout(c *sim.Case, r *sim.Result) (verdict, []string) {
	var labels []string
	if r.Hang {
		return verdict{"run with a DAG timeout never ended (confirmed with 5x bound): " + r.HangInfo, ""}, labels
	}
	an := sim.Analyze(r.Trace)
	held := false
	for _, s := range c.Steps {
		if st := an[s.Name]; st != nil && s.Hold && len(st.Enters) > 0 {
			held = true
		}
	}
	if !held {
		return verdict{}, append(labels, "timeout-not-binding")
	}
	labels = append(labels, "timeout-fired")
	// an attempt ended by the timeout is the step's last: the deadline is not a
	// failure to retry
	for _, s := range c.Steps {
		st := an[s.Name]
		if st == nil {
			continue
		}
		for att, e := range st.ExitErr {
			if e != "signal: killed" {
				continue
			}
			x := st.ExitOf[att]
			for _, cr := range st.Creates {
				if cr > x {
					return verdict{fmt.Sprintf("step %q: attempt %d was ended by the DAG timeout (seq %d), yet the step was launched again afterwards (executor created at seq %d; retryLimit %d)", s.Name, att, x, cr, s.RetryLimit), ""}, labels
				}
			}
			if s.RetryLimit > 0 {
				labels = append(labels, "timeout-hit-step-with-retries-left")
			}
		}
	}
	if r.Status == "finished" {
		return verdict{"run hit its timeout with a step still executing but is reported finished", ""}, labels
	}
	for _, f := range r.Final {
		if f.Status == "running" || f.Status == "not started" {
			// steps never reached stay "not started" only if blocked upstream: the loop ends when none is running/none
			return verdict{fmt.Sprintf("after the timeout a step is left %q", f.Status), ""}, labels
		}
	}
	// exit handler's command executes; the handler matching the outcome too
	for _, h := range []string{sim.HandlerForOutcome(r.Status), "onExit"} {
		if h == "" || c.Handlers[h] == nil {
			continue
		}
		if st := an[h]; st == nil || len(st.Enters) != 1 {
			return verdict{fmt.Sprintf("after the DAG timeout the %s handler's command was not executed (run reported %q)", h, r.Status), sigTimeoutHandler}, labels
		}
		labels = append(labels, "handler-after-timeout")
	}
	return verdict{}, labels
}

func check(t rep.Fataler, c sim.Case) {
	// steer away from open findings by construction, counting what was excluded
	if rep.Known(sigStartAfterStop) && c.Stop != nil && c.Stop.Trigger == "create" && c.Stop.Gate {
		rep.Excluded(sigStartAfterStop)
		c.Stop.Gate = false
	}
	if rep.Known(sigNoForceKill) {
		for i := range c.Steps {
			if c.Steps[i].IgnoreSig && c.Steps[i].Hold && c.TimeoutP == 0 {
				rep.Excluded(sigNoForceKill)
				c.Steps[i].Hold = false
			}
		}
	}
	r := sim.RunConfirm(c)
	if r.GraphErr != "" {
		rep.Fail(t, ID, "sched", c, r, "valid generated DAG refused: %s", r.GraphErr)
	}
	var v verdict
	var labels []string
	if c.TimeoutP > 0 {
		v, labels = judgeTimeout(&c, r)
	} else {
		v, labels = judgeStop(&c, r)
	}
	if v.msg != "" {
		if v.sig != "" && rep.Known(v.sig) {
			rep.KnownHit(v.sig)
			rep.Eval("", "matches-open-finding")
			return
		}
		rep.Fail(t, ID, "sched", c, r, "%s", v.msg)
	}
	key := ""
	nt := false
	for _, l := range labels {
		switch l {
		case "stop-with-open-attempts", "repeat-open-at-stop", "force-killed", "timeout-fired", "stop-inside-repeat-pause":
			nt = true
		}
	}
	if c.Stop != nil {
		labels = append(labels, "trigger:"+c.Stop.Trigger)
		if c.Stop.Gate && c.Stop.Trigger == "create" {
			labels = append(labels, "window:create->start")
			nt = true
		}
	}
	if nt {
		key = rep.Hash(c.Key() + "|" + r.Order)
	}
	rep.Eval(key, labels...)
	if key != "" && rep.WantSample() {
		rep.Sample(map[string]any{"case": c, "order": r.Order, "status": r.Status, "labels": labels})
	}
}

func gen(t *rapid.T) sim.Case {
	if rapid.IntRange(0, 4).Draw(t, "timeoutCase") == 0 {
		c := sim.Gen(t, sim.GenOpts{MaxSteps: 5, Handlers: true, Timeout: true, Retries: true})
		if c.TimeoutP == 0 {
			c.TimeoutP = rapid.IntRange(5, 30).Draw(t, "timeoutP2")
			c.Steps[0].Hold = true
		}
		return c
	}
	return sim.Gen(t, opts())
}

func TestProp(t *testing.T) {
	rapid.Check(t, func(t *rapid.T) { check(t, gen(t)) })
}

func TestReplay(t *testing.T) {
	p := rep.ReplayPath()
	if p == "" {
		t.Skip("no VERIF_REPLAY")
	}
	cf, err := rep.LoadCase(p)
	if err != nil {
		t.Fatal(err)
	}
	if cf.Sub == "http" {
		var hc HTTPCase
		if err := json.Unmarshal(cf.Case, &hc); err != nil {
			t.Fatal(err)
		}
		checkHTTP(t, hc)
		return
	}
	if cf.Sub == "cli" {
		var cc CLIStop
		if err := json.Unmarshal(cf.Case, &cc); err != nil {
			t.Fatal(err)
		}
		checkCLIStop(t, cc)
		return
	}
	if cf.Sub == "gap" {
		replayGap(t, cf.Case)
		return
	}
	if cf.Sub == "agent" {
		replayAgentStop(t, cf.Case)
		return
	}
	if cf.Sub == "proc" {
		replayProc(t, cf.Case)
		return
	}
	if cf.Sub != "sched" {
		t.Skip("not a sched case")
	}
	var c sim.Case
	if err := json.Unmarshal(cf.Case, &c); err != nil {
		t.Fatal(err)
	}
	for i := 0; i < rep.EnvInt("VERIF_REPLAY_REPS", 100); i++ {
		check(t, c)
	}
}
