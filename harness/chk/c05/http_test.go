package c05

import (
	"context"
	"fmt"
	"net"
	"os"
	"path/filepath"
	"sync/atomic"
	"syscall"
	"testing"
	"time"

	"github.com/ErdemOzgen/blackdagger/internal/dag"
	"github.com/ErdemOzgen/blackdagger/internal/dag/scheduler"
	"github.com/ErdemOzgen/blackdagger/verifharness/rep"
	"github.com/ErdemOzgen/blackdagger/verifharness/sim"
	"pgregory.net/rapid"
)

// A step that is not a process: the http executor with a request in flight
// against a server that accepts the connection and never answers. A stop
// request or the DAG's timeout has to end the run all the same — whatever
// `timeout` the step configures for itself.

// HTTPCase is one case of the http stage.
type HTTPCase struct {
	OwnTimeoutS int  `json:"ownTimeoutS"` // the step's own `timeout` (0: none)
	DagTimeout  bool `json:"dagTimeout"`  // DAG timeout (400 ms) instead of a stop request
	Second      bool `json:"second"`      // a command step after the http step (must not be started)
}

func checkHTTP(t rep.Fataler, c HTTPCase) {
	rep.Begin(ID, "http", c)
	l, err := net.Listen("tcp", "127.0.0.1:0")
	if err != nil {
		rep.Inconclusive("no loopback listener")
		return
	}
	defer l.Close()
	var accepted atomic.Int32
	var conns []net.Conn
	go func() {
		for {
			cn, err := l.Accept()
			if err != nil {
				return
			}
			accepted.Add(1)
			conns = append(conns, cn) // kept open, never answered
		}
	}()
	dir, err := os.MkdirTemp(sim.ScratchRoot(), "vc05h")
	if err != nil {
		t.Fatalf("mkdtemp: %v", err)
	}
	defer os.RemoveAll(dir)
	cfgMap := map[string]any{"silent": true}
	if c.OwnTimeoutS > 0 {
		cfgMap["timeout"] = c.OwnTimeoutS
	}
	steps := []dag.Step{{Name: "call", Command: "GET", Args: []string{fmt.Sprintf("http://%s/hang", l.Addr().String())},
		ExecutorConfig: dag.ExecutorConfig{Type: "http", Config: cfgMap}}}
	if c.Second {
		steps = append(steps, dag.Step{Name: "after", Command: "touch", Args: []string{filepath.Join(dir, "after.ran")}, Depends: []string{"call"}})
	}
	g, err := scheduler.NewExecutionGraph(sim.Quiet, steps...)
	if err != nil {
		t.Fatalf("graph: %v", err)
	}
	cfg := &scheduler.Config{LogDir: filepath.Join(dir, "logs"), Logger: sim.Quiet, ReqID: "verifreq-c05h",
		OnExit: &dag.Step{Name: "onExit", Command: "touch", Args: []string{filepath.Join(dir, "onExit.ran")}}}
	if c.DagTimeout {
		cfg.Timeout = 400 * time.Millisecond
	}
	sc := scheduler.New(cfg)
	sc.VerifSetPause(time.Millisecond)
	resCh := make(chan error, 1)
	t0 := time.Now()
	go func() {
		ctx := dag.NewContext(context.Background(), &dag.DAG{Name: "verif-c05h"}, nil, "verifreq-c05h", filepath.Join(dir, "sched.log"))
		resCh <- sc.Schedule(ctx, g, nil)
	}()
	// the request is in flight once the server has accepted the connection
	for i := 0; i < 2000 && accepted.Load() == 0; i++ {
		time.Sleep(2 * time.Millisecond)
	}
	if accepted.Load() == 0 {
		sc.Signal(g, syscall.SIGKILL, nil, false)
		note := ""
		for _, n := range g.Nodes() {
			d := n.Data()
			note += fmt.Sprintf(" %s=%s(%v)", d.Step.Name, d.State.Status, d.State.Error)
		}
		rep.Inconclusive("the http step did not connect within 4 s:" + note)
		return
	}
	cause := "the DAG timeout (400 ms)"
	from := t0.Add(400 * time.Millisecond)
	if !c.DagTimeout {
		cause = "a stop request"
		from = time.Now()
		sc.Signal(g, syscall.SIGTERM, nil, true)
	}
	bound := 4 * time.Second * time.Duration(sim.LoadFactor())
	select {
	case <-resCh:
	case <-time.After(time.Until(from.Add(bound))):
		sc.Signal(g, syscall.SIGKILL, nil, false)
		for _, cn := range conns {
			cn.Close()
		}
		select {
		case <-resCh:
		case <-time.After(3 * time.Second):
		}
		rep.Fail(t, ID, "http", c, nil, "%s did not end the run within %v: its http step (own timeout: %d s) has a request in flight against a server that never answers", cause, bound, c.OwnTimeoutS)
	}
	if st := sc.Status(g).String(); st == "finished" || st == "running" {
		rep.Fail(t, ID, "http", c, nil, "after %s the run is reported %q", cause, st)
	}
	if _, err := os.Stat(filepath.Join(dir, "after.ran")); err == nil {
		rep.Fail(t, ID, "http", c, nil, "the step after the interrupted http step was started although the run had been ended by %s", cause)
	}
	if _, err := os.Stat(filepath.Join(dir, "onExit.ran")); err != nil {
		rep.Fail(t, ID, "http", c, nil, "the exit handler did not run after %s", cause)
	}
	rep.Eval(rep.Hash(c), "http-step", fmt.Sprintf("http-own-timeout:%d", c.OwnTimeoutS), "http-cause:"+map[bool]string{true: "timeout", false: "stop"}[c.DagTimeout])
}

func TestHTTP(t *testing.T) {
	rapid.Check(t, func(t *rapid.T) {
		checkHTTP(t, HTTPCase{OwnTimeoutS: rapid.SampledFrom([]int{0, 30, 30, 120}).Draw(t, "own"), DagTimeout: rapid.Bool().Draw(t, "dagTimeout"), Second: rapid.Bool().Draw(t, "second")})
	})
}
