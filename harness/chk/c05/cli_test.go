package c05

import (
	"fmt"
	"os"
	"os/exec"
	"path/filepath"
	"strconv"
	"strings"
	"syscall"
	"testing"
	"time"

	"github.com/ErdemOzgen/blackdagger/internal/dag"
	"github.com/ErdemOzgen/blackdagger/verifharness/agentkit"
	"github.com/ErdemOzgen/blackdagger/verifharness/rep"
	"github.com/ErdemOzgen/blackdagger/verifharness/sim"
	"pgregory.net/rapid"
)

// Layer 4 (REAL binaries): `blackdagger start` of a DAG whose running step is
// a shell command or a SUB-WORKFLOW (`run: child` — the step is another
// `blackdagger start` process with steps of its own), stopped the way users do
// it: `blackdagger stop`, or SIGTERM / SIGINT to the start process. The start
// process has to end within maxCleanUpTime + slack, no process of the run (or of
// the child run) may be left, the run is recorded canceled and the exit handler ran.

// CLIStop is one real-binary stop case.
type CLIStop struct {
	Shape   int `json:"shape"`   // 0 command step, 1 sub-workflow step, 2 sub-workflow inside a two-step chain (first step done)
	Channel int `json:"channel"` // 0 `blackdagger stop`, 1 SIGTERM, 2 SIGINT
	DelayMS int `json:"delayMS"` // after the innermost step's process has started
}

func genCLIStop(t *rapid.T) CLIStop {
	return CLIStop{Shape: rapid.IntRange(0, 2).Draw(t, "shape"), Channel: rapid.IntRange(0, 2).Draw(t, "channel"), DelayMS: rapid.SampledFrom([]int{0, 30, 150, 400}).Draw(t, "delayMS")}
}

func checkCLIStop(t rep.Fataler, c CLIStop) {
	rep.Begin(ID, "cli", c)
	bin := os.Getenv("VERIF_BIN")
	h, err := agentkit.NewHome(bin)
	if err != nil {
		t.Fatalf("home: %v", err)
	}
	defer h.Cleanup()
	work := filepath.Join(h.Dir, "work")
	os.MkdirAll(work, 0o755)
	pidFile, exitMark := filepath.Join(work, "inner.pid"), filepath.Join(work, "exit.ran")
	script := filepath.Join(work, "inner.sh")
	os.WriteFile(script, []byte(fmt.Sprintf("#!/bin/sh\necho $$ > %s.tmp\nmv %s.tmp %s\nexec sleep 40\n", pidFile, pidFile, pidFile)), 0o755)
	inner := "sh " + script
	var y string
	switch c.Shape {
	case 0:
		y = fmt.Sprintf("maxCleanUpTimeSec: 2\nsteps:\n  - name: s1\n    command: %s\n", inner)
	default:
		child := fmt.Sprintf("maxCleanUpTimeSec: 2\nsteps:\n  - name: c1\n    command: %s\n", inner)
		if _, err := h.WriteDAG("c05child", child); err != nil {
			t.Fatalf("write: %v", err)
		}
		y = "maxCleanUpTimeSec: 2\nsteps:\n"
		if c.Shape == 2 {
			y += "  - name: s0\n    command: \"true\"\n"
		}
		y += "  - name: s1\n    run: c05child\n"
		if c.Shape == 2 {
			y += "    depends: [s0]\n"
		}
	}
	y += fmt.Sprintf("handlerOn:\n  exit:\n    command: touch %s\n", exitMark)
	file, err := h.WriteDAG("c05parent", y)
	if err != nil {
		t.Fatalf("write: %v", err)
	}
	env := append(os.Environ(), "HOME="+h.Dir, "BLACKDAGGER_HOME="+h.Dir, "BLACKDAGGER_DAGS_DIR="+h.DAGs, "BLACKDAGGER_DATA_DIR="+h.Data,
		"BLACKDAGGER_LOG_DIR="+h.Logs, "BLACKDAGGER_SUSPEND_FLAGS_DIR="+h.Flags, "BLACKDAGGER_EXECUTABLE="+bin, "BLACKDAGGER_WORK_DIR="+h.Dir)
	defer func() {
		for _, n := range []string{file, filepath.Join(h.DAGs, "c05child.yaml")} {
			if d, err := dag.LoadMetadata(n); err == nil {
				os.Remove(d.SockAddr())
			}
		}
	}()
	start := exec.Command(bin, "start", "-q", file)
	start.Env, start.Dir = env, h.Dir
	start.SysProcAttr = &syscall.SysProcAttr{Setpgid: true}
	if err := start.Start(); err != nil {
		t.Fatalf("start: %v", err)
	}
	exited := make(chan error, 1)
	go func() { exited <- start.Wait() }()
	innerPid := 0
	killAll := func() {
		syscall.Kill(-start.Process.Pid, syscall.SIGKILL)
		if innerPid > 0 {
			syscall.Kill(innerPid, syscall.SIGKILL)
		}
		exec.Command("pkill", "-KILL", "-f", h.Dir+"/").Run()
	}
	lf := time.Duration(sim.LoadFactor())
	// wait until the innermost step's process runs
	deadline := time.Now().Add(20 * time.Second * lf)
	for time.Now().Before(deadline) && innerPid == 0 {
		if b, err := os.ReadFile(pidFile); err == nil {
			innerPid, _ = strconv.Atoi(strings.TrimSpace(string(b)))
		}
		select {
		case err := <-exited:
			killAll()
			rep.Fail(t, ID, "cli", c, nil, "`blackdagger start` ended before its step was running: %v", err)
		default:
		}
		time.Sleep(10 * time.Millisecond)
	}
	if innerPid == 0 {
		killAll()
		rep.Inconclusive("the step's process did not come up within the bound")
		return
	}
	time.Sleep(time.Duration(c.DelayMS) * time.Millisecond)
	t0 := time.Now()
	how := ""
	switch c.Channel {
	case 0:
		how = "`blackdagger stop`"
		stop := exec.Command(bin, "stop", file)
		stop.Env, stop.Dir = env, h.Dir
		go stop.Run()
	case 1:
		how = "SIGTERM to the start process"
		syscall.Kill(start.Process.Pid, syscall.SIGTERM)
	default:
		how = "SIGINT to the start process"
		syscall.Kill(start.Process.Pid, syscall.SIGINT)
	}
	// maxCleanUpTime 2 s (+ the child's own 2 s for a sub-workflow) + the agent's
	// polling step + slack
	bound := (4*time.Second + 3*time.Second + 8*time.Second) * lf
	select {
	case <-exited:
	case <-time.After(bound):
		stillInner := alive(innerPid)
		killAll()
		<-exited
		rep.Fail(t, ID, "cli", c, map[string]any{"innerStepAlive": stillInner}, "%s while the %s was running: `blackdagger start` had not ended %v later (maxCleanUpTimeSec 2; the step's own process alive: %v)", how, map[int]string{0: "command step", 1: "sub-workflow step", 2: "sub-workflow step (second of a chain)"}[c.Shape], bound, stillInner)
	}
	took := time.Since(t0)
	// nothing of the run may be left behind (a short grace for the kernel to reap)
	left := true
	for i := 0; i < 100 && left; i++ {
		left = alive(innerPid)
		if left {
			time.Sleep(20 * time.Millisecond)
		}
	}
	if left {
		killAll()
		rep.Fail(t, ID, "cli", c, nil, "%s: the run ended after %v but the process of its running step (pid %d) is still alive", how, took.Round(time.Millisecond), innerPid)
	}
	runs := h.NewDataStores().HistoryStore().ReadStatusRecent(file, 3)
	if len(runs) != 1 {
		rep.Fail(t, ID, "cli", c, nil, "%s: the stopped run is recorded %d time(s)", how, len(runs))
	}
	if st := runs[0].Status.Status.String(); st != "canceled" {
		rep.Fail(t, ID, "cli", c, map[string]any{"status": st}, "%s while the step was running: the run is recorded %q, expected canceled", how, st)
	}
	if _, err := os.Stat(exitMark); err != nil {
		rep.Fail(t, ID, "cli", c, nil, "%s: the exit handler did not run after the stop", how)
	}
	killAll()
	rep.Eval(rep.Hash(c), fmt.Sprintf("cli-shape:%d", c.Shape), fmt.Sprintf("cli-channel:%d", c.Channel))
	if rep.WantSample() {
		rep.Sample(map[string]any{"stage": "cli", "case": c, "stopVia": how, "endedAfter": took.Round(time.Millisecond).String()})
	}
}

func TestCLIStop(t *testing.T) {
	if os.Getenv("VERIF_BIN") == "" {
		t.Fatal("VERIF_BIN not set")
	}
	rapid.Check(t, func(t *rapid.T) { checkCLIStop(t, genCLIStop(t)) })
}
