package c17

import (
	"context"
	"fmt"
	"net"
	"net/http"
	"os"
	"testing"
	"time"

	"github.com/ErdemOzgen/blackdagger/internal/config"
	"github.com/ErdemOzgen/blackdagger/internal/frontend"
	"github.com/ErdemOzgen/blackdagger/verifharness/agentkit"
	"github.com/ErdemOzgen/blackdagger/verifharness/rep"
	"github.com/ErdemOzgen/blackdagger/verifharness/sim"
	"pgregory.net/rapid"
)

// The whole path a user configures: config.Config (isBasicAuth / isAuthToken
// and the secrets) -> frontend.New -> server.Serve listening on a loopback
// port -> real HTTP requests. What the configuration says is what the
// listening server enforces: a request without a configured secret is
// answered 401, one with either configured credential in standard form is let in.

// ServerCase: one configuration, a handful of requests.
type ServerCase struct {
	Auth Case `json:"auth"` // configuration; Headers / Method / Path unused
}

func freePort() int {
	l, err := net.Listen("tcp", "127.0.0.1:0")
	if err != nil {
		return 0
	}
	defer l.Close()
	return l.Addr().(*net.TCPAddr).Port
}

func checkServer(t rep.Fataler, sc ServerCase) {
	rep.Begin(ID, "server", sc)
	snap := agentkit.EnvSnapshot()
	defer agentkit.RestoreEnv(snap)
	h, err := agentkit.NewHome(os.Getenv("VERIF_TOOL_FAKEEXE"))
	if err != nil {
		t.Fatalf("home: %v", err)
	}
	defer h.Cleanup()
	h.WriteDAG("existing", "steps:\n  - name: s1\n    command: \"true\"\n")
	c := sc.Auth
	port := freePort()
	if port == 0 {
		rep.Inconclusive("no free loopback port")
		return
	}
	cfg := &config.Config{Host: "127.0.0.1", Port: port, DAGs: h.DAGs, DataDir: h.Data, LogDir: h.Logs, SuspendFlagsDir: h.Flags,
		IsBasicAuth: c.Basic, BasicAuthUsername: c.User, BasicAuthPassword: c.Pass, IsAuthToken: c.Token, AuthToken: c.Tok, APIBaseURL: "/api/v1"}
	svr := frontend.New(cfg, sim.Quiet, h.Cli)
	ctx, cancel := context.WithCancel(context.Background())
	served := make(chan error, 1)
	go func() { served <- svr.Serve(ctx) }()
	defer func() {
		svr.Shutdown()
		cancel()
		select {
		case <-served:
		case <-time.After(5 * time.Second):
		}
	}()
	base := fmt.Sprintf("http://127.0.0.1:%d", port)
	cl := &http.Client{Timeout: 5 * time.Second}
	up := false
	for i := 0; i < 400 && !up; i++ {
		if conn, err := net.DialTimeout("tcp", fmt.Sprintf("127.0.0.1:%d", port), 100*time.Millisecond); err == nil {
			conn.Close()
			up = true
		} else {
			time.Sleep(10 * time.Millisecond)
		}
	}
	if !up {
		rep.Inconclusive("the server did not come up on its port")
		return
	}
	type probe struct {
		name   string
		header string
		want   int // 0: must not be 401 (let in), 401: must be refused
	}
	authOn := c.Basic || c.Token
	ps := []probe{{"no Authorization header", "", 401}, {"a wrong bearer token", "Bearer not-the-token-" + c.Tok + "x", 401}, {"wrong basic credentials", "Basic " + b64(c.User+"x:"+c.Pass), 401}}
	if c.Basic {
		ps = append(ps, probe{"the configured user and password", "Basic " + b64(c.User+":"+c.Pass), 0})
	}
	if c.Token && c.Tok != "" {
		ps = append(ps, probe{"the configured token", "Bearer " + c.Tok, 0})
	}
	for _, p := range ps {
		for _, m := range []string{"GET", "POST", "OPTIONS", "DELETE"} {
			url := base + "/api/v1/dags"
			if m == "DELETE" {
				url = base + "/api/v1/dags/no-such-dag-for-delete"
			}
			req, _ := http.NewRequest(m, url, nil)
			if p.header != "" {
				req.Header.Set("Authorization", p.header)
			}
			resp, err := cl.Do(req)
			if err != nil {
				rep.Inconclusive("request failed: " + err.Error())
				return
			}
			resp.Body.Close()
			cfgTxt := fmt.Sprintf("isBasicAuth=%v isAuthToken=%v", c.Basic, c.Token)
			switch {
			case authOn && p.want == 401 && resp.StatusCode != http.StatusUnauthorized:
				rep.Fail(t, ID, "server", sc, map[string]any{"status": resp.StatusCode}, "server configured with %s: %s %s with %s was answered %d, expected 401", cfgTxt, m, "/api/v1/dags", p.name, resp.StatusCode)
			case p.want == 0 && resp.StatusCode == http.StatusUnauthorized:
				rep.Fail(t, ID, "server", sc, map[string]any{"status": resp.StatusCode}, "server configured with %s: %s %s with %s was answered 401 — a configured credential in standard form must be accepted", cfgTxt, m, "/api/v1/dags", p.name)
			case !authOn && resp.StatusCode == http.StatusUnauthorized:
				rep.Fail(t, ID, "server", sc, nil, "no authentication configured but %s was answered 401", m)
			}
			rep.EvalCounted(authOn, fmt.Sprintf("server:%s", cfgTxt))
		}
	}
}

func TestServer(t *testing.T) {
	rapid.Check(t, func(t *rapid.T) {
		c := Case{Basic: rapid.Bool().Draw(t, "basic"), Token: rapid.Bool().Draw(t, "token")}
		c.User = rapid.SampledFrom([]string{"admin", "u", "a:b"}).Draw(t, "user")
		c.Pass = rapid.SampledFrom([]string{"secret", "p w", ""}).Draw(t, "pass")
		c.Tok = rapid.SampledFrom([]string{"tok-123", "t", "secret"}).Draw(t, "tok")
		if c.User == "a:b" {
			c.User = "ab" // a colon in the user name cannot be expressed in the Basic scheme
		}
		checkServer(t, ServerCase{Auth: c})
	})
}
