// C17 — no API request gets through without valid credentials when auth is on.
package c17

import (
	"encoding/base64"
	"encoding/json"
	"fmt"
	"net/http"
	"net/http/httptest"
	"strings"
	"testing"

	"github.com/ErdemOzgen/blackdagger/internal/frontend/middleware"
	"github.com/ErdemOzgen/blackdagger/verifharness/rep"
	"github.com/ErdemOzgen/blackdagger/verifharness/sim"
	"pgregory.net/rapid"
)

const ID = "C17"

func TestMain(m *testing.M) { rep.Main(m, ID) }

// Case is one request against one auth configuration.
type Case struct {
	Basic    bool     `json:"basic"`
	User     string   `json:"user,omitempty"`
	Pass     string   `json:"pass,omitempty"`
	Token    bool     `json:"token"`
	Tok      string   `json:"tok,omitempty"`
	Headers  []string `json:"headers"` // Authorization header values (0, 1 or more)
	Method   string   `json:"method"`
	BasePath string   `json:"basePath,omitempty"`
	Path     string   `json:"path"` // path below the base path
}

type outcome struct {
	Code     int  `json:"code"`
	API      bool `json:"apiReached"`
	UI       bool `json:"uiReached"`
	AuthSeen bool `json:"-"`
}

func exec(c Case) outcome {
	var o outcome
	api := http.HandlerFunc(func(w http.ResponseWriter, r *http.Request) { o.API = true; w.WriteHeader(200) })
	ui := http.HandlerFunc(func(w http.ResponseWriter, r *http.Request) { o.UI = true; w.WriteHeader(200) })
	opts := &middleware.Options{Handler: ui, Logger: sim.Quiet, BasePath: c.BasePath}
	if c.Basic {
		opts.AuthBasic = &middleware.AuthBasic{Username: c.User, Password: c.Pass}
	}
	if c.Token {
		opts.AuthToken = &middleware.AuthToken{Token: c.Tok}
	}
	middleware.Setup(opts) // resets every package-level variable of the middleware
	h := middleware.SetupGlobalMiddleware(api)
	req := httptest.NewRequest(c.Method, "http://example.test"+c.BasePath+c.Path, nil)
	for _, hv := range c.Headers {
		req.Header.Add("Authorization", hv)
	}
	rec := httptest.NewRecorder()
	h.ServeHTTP(rec, req)
	o.Code = rec.Code
	return o
}

func b64(s string) string { return base64.StdEncoding.EncodeToString([]byte(s)) }

// fields splits a header value on blanks (space and tab).
func fields(h string) []string {
	return strings.FieldsFunc(h, func(r rune) bool { return r == ' ' || r == '\t' })
}

// presents: necessary condition for "the request presents a configured
// secret": some blank-separated field of the (first) Authorization header is
// the configured token, or base64-decodes to exactly user:password.
func presents(c Case) (basic, token bool) {
	if len(c.Headers) == 0 {
		return
	}
	for _, f := range fields(c.Headers[0]) {
		if c.Token && c.Tok != "" && f == c.Tok {
			token = true
		}
		if c.Basic {
			if d, err := base64.StdEncoding.DecodeString(f); err == nil && string(d) == c.User+":"+c.Pass {
				basic = true
			}
		}
	}
	return
}

func standardForm(c Case) bool {
	if len(c.Headers) != 1 {
		return false
	}
	h := c.Headers[0]
	if c.Basic && h == "Basic "+b64(c.User+":"+c.Pass) {
		return true
	}
	if c.Token && c.Tok != "" && h == "Bearer "+c.Tok {
		return true
	}
	return false
}

func apiPath(p string) bool { return strings.HasPrefix(p, "/api") }

func judge(c Case, o outcome) string {
	if !apiPath(c.Path) {
		return "" // UI assets: outside the property
	}
	authOn := c.Basic || c.Token
	passed := o.API || (c.Method == http.MethodOptions && o.Code != http.StatusUnauthorized)
	if !authOn {
		if !passed {
			return fmt.Sprintf("no auth configured but the request did not reach the API handler (status %d)", o.Code)
		}
		return ""
	}
	pb, pt := presents(c)
	if passed && !pb && !pt {
		return fmt.Sprintf("request reached the API handler (status %d) without presenting the configured password or token", o.Code)
	}
	if standardForm(c) && !passed {
		return fmt.Sprintf("credentials in standard form were rejected (status %d)", o.Code)
	}
	if !pb && !pt {
		if o.Code != http.StatusUnauthorized {
			return fmt.Sprintf("request without valid credentials answered %d, expected 401", o.Code)
		}
		if o.API {
			return "request without valid credentials reached the API handler"
		}
	}
	return ""
}

var (
	users   = []string{"admin", "u", "user", "Admin"}
	passes  = []string{"secret", "", "pass:word", "admin", "p w", "Secret", "secre", "secret1"}
	tokens  = []string{"tok", "token", "Bearer", "Basic", "t-0k3n/+=", "YWRtaW46c2VjcmV0" /* b64(admin:secret) */}
	schemes = []string{"Basic", "basic", "BASIC", "Bearer", "bearer", "Token", "", "Basic Bearer", "Bearer Basic"}
	seps    = []string{" ", "  ", "\t", ""}
	methods = []string{"GET", "POST", "PUT", "DELETE", "PATCH", "HEAD", "OPTIONS", "TRACE"}
	paths   = []string{"/api/v1/dags", "/api/v1/dags/x", "/api", "/apix", "/api/v1/dags/", "/api/", "/api/v1/search?q=1", "/assets/app.js", "/"}
	bases   = []string{"", "/base", "/b/c"}
)

// payloads returns the credential payload variants for a configuration.
func payloads(c Case) []string {
	up := c.User + ":" + c.Pass
	full := b64(up)
	out := []string{
		full, full[:len(full)-1], full + "A", strings.ToLower(full), b64(c.User + ":" + c.Pass + "x"), b64("x" + up),
		b64(c.User + ":"), b64(":" + c.Pass), b64(c.Pass), b64(c.User), b64(strings.ToUpper(c.User) + ":" + c.Pass), "!!!notbase64!!!",
		b64(c.User + c.Pass), "", b64(up + "\n"), up,
		b64(c.User + ":" + flip(c.Pass)), b64(flip(c.User) + ":" + c.Pass), b64(c.User + ":" + rev(c.Pass)),
	}
	if c.Token {
		out = append(out, c.Tok, c.Tok+"x", strings.ToUpper(c.Tok), b64(c.Tok), b64(c.Tok+":"), b64(":"+c.Tok), flip(c.Tok), rev(c.Tok))
		if len(c.Tok) > 1 {
			out = append(out, c.Tok[:len(c.Tok)-1])
		}
	}
	return out
}

// flip changes the last character (same length, wrong value).
func flip(s string) string {
	if s == "" {
		return "x"
	}
	b := []byte(s)
	if b[len(b)-1] == 'z' {
		b[len(b)-1] = 'y'
	} else {
		b[len(b)-1] = 'z'
	}
	return string(b)
}

func rev(s string) string {
	b := []byte(s)
	for i, j := 0, len(b)-1; i < j; i, j = i+1, j-1 {
		b[i], b[j] = b[j], b[i]
	}
	return string(b)
}

func configs() []Case {
	var cs []Case
	cs = append(cs, Case{})
	for _, u := range users[:3] {
		for _, p := range passes[:5] {
			cs = append(cs, Case{Basic: true, User: u, Pass: p})
		}
	}
	for _, tk := range tokens {
		cs = append(cs, Case{Token: true, Tok: tk})
	}
	for _, tk := range tokens {
		cs = append(cs, Case{Basic: true, User: "admin", Pass: "secret", Token: true, Tok: tk})
	}
	cs = append(cs, Case{Basic: true, User: "u", Pass: "", Token: true, Tok: "tok"})
	cs = append(cs, Case{Token: true, Tok: ""}) // degenerate: only-if direction
	return cs
}

func eval(t rep.Fataler, c Case, sub string, counted bool) {
	o := exec(c)
	if msg := judge(c, o); msg != "" {
		rep.Fail(t, ID, sub, c, o, "%s", msg)
	}
	authOn := c.Basic || c.Token
	nt := apiPath(c.Path) && authOn && len(c.Headers) > 0 && (!standardForm(c) || (c.Basic && c.Token))
	labels := []string{cfgLabel(c)}
	if apiPath(c.Path) {
		if o.API {
			labels = append(labels, "verdict:passed")
		} else if o.Code == 401 {
			labels = append(labels, "verdict:401")
		} else {
			labels = append(labels, fmt.Sprintf("verdict:%d", o.Code))
		}
		if standardForm(c) {
			labels = append(labels, "standard-form")
		}
	} else {
		labels = append(labels, "non-api-path(not judged)")
	}
	if counted {
		rep.EvalCounted(nt, labels...)
	} else {
		key := ""
		if nt {
			key = rep.Hash(c)
		}
		rep.Eval(key, labels...)
	}
	if nt && o.API && !standardForm(c) && rep.WantSample() {
		rep.Sample(map[string]any{"case": c, "outcome": o, "note": "non-standard form accepted (it does present the secret)"})
	}
}

func cfgLabel(c Case) string {
	switch {
	case c.Basic && c.Token:
		return "cfg:both"
	case c.Basic:
		return "cfg:basic"
	case c.Token:
		return "cfg:token"
	}
	return "cfg:none"
}

// TestGrid enumerates configuration x scheme x separator x payload x a rotating
// method/path/base choice (full method x path product in the thorough tier).
func TestGrid(t *testing.T) {
	shard, nsh := rep.EnvInt("VERIF_SHARD", 0), rep.EnvInt("VERIF_NSHARDS", 1)
	i := 0
	for _, cfg := range configs() {
		var hdrs [][]string
		hdrs = append(hdrs, nil, []string{""}, []string{" "})
		for _, p := range payloads(cfg) {
			for _, s := range schemes {
				for _, sep := range seps {
					hdrs = append(hdrs, []string{s + sep + p})
				}
			}
			hdrs = append(hdrs, []string{"Basic " + p, "Bearer " + cfg.Tok}, []string{"garbage", "Basic " + p})
		}
		for _, h := range hdrs {
			var mp [][3]string
			if rep.Thorough() {
				for _, m := range methods {
					for _, p := range paths {
						mp = append(mp, [3]string{m, p, bases[(i+len(m))%len(bases)]})
					}
				}
			} else {
				mp = append(mp, [3]string{methods[i%len(methods)], paths[i%len(paths)], bases[i%len(bases)]},
					[3]string{methods[(i/3)%len(methods)], paths[0], ""})
			}
			for _, x := range mp {
				i++
				if i%nsh != shard {
					continue
				}
				c := cfg
				c.Headers, c.Method, c.Path, c.BasePath = h, x[0], x[1], x[2]
				eval(t, c, "grid", true)
			}
		}
	}
	if shard == 0 && rep.Thorough() {
		rep.ExhaustiveSpace("header grid: 33 configurations x (scheme x separator x payload variants + multi-header forms) x 9 methods x 9 paths")
	}
}

func gen(t *rapid.T) Case {
	c := Case{}
	switch rapid.IntRange(0, 6).Draw(t, "cfg") {
	case 0:
	case 1, 2:
		c.Basic = true
	case 3, 4:
		c.Token = true
	default:
		c.Basic, c.Token = true, true
	}
	if c.Basic {
		c.User = rapid.SampledFrom(users).Draw(t, "user")
		c.Pass = rapid.SampledFrom(passes).Draw(t, "pass")
	}
	if c.Token {
		if rapid.IntRange(0, 5).Draw(t, "tokKind") == 0 {
			c.Tok = rapid.StringMatching(`[A-Za-z0-9+/=._-]{1,12}`).Draw(t, "tokRand")
		} else {
			c.Tok = rapid.SampledFrom(tokens).Draw(t, "tok")
		}
	}
	nh := rapid.SampledFrom([]int{0, 1, 1, 1, 1, 1, 2}).Draw(t, "nHeaders")
	ps := payloads(c)
	for i := 0; i < nh; i++ {
		var h string
		switch rapid.IntRange(0, 9).Draw(t, "hKind") {
		case 0:
			h = rapid.StringMatching(`[ -~]{0,24}`).Draw(t, "hRand")
		case 1:
			h = rapid.SampledFrom(schemes).Draw(t, "s") + rapid.SampledFrom(seps).Draw(t, "sep") + rapid.SampledFrom(ps).Draw(t, "p") + rapid.SampledFrom([]string{"", " ", " x", "\t"}).Draw(t, "trail")
		case 2, 3: // exact standard form of a configured secret
			if c.Token && c.Tok != "" && (!c.Basic || rapid.Bool().Draw(t, "stdTok")) {
				h = "Bearer " + c.Tok
			} else {
				h = "Basic " + b64(c.User+":"+c.Pass)
			}
		default:
			h = rapid.SampledFrom(schemes).Draw(t, "s") + rapid.SampledFrom(seps).Draw(t, "sep") + rapid.SampledFrom(ps).Draw(t, "p")
		}
		c.Headers = append(c.Headers, h)
	}
	c.Method = rapid.SampledFrom(methods).Draw(t, "method")
	c.Path = rapid.SampledFrom(paths).Draw(t, "path")
	c.BasePath = rapid.SampledFrom(bases).Draw(t, "base")
	return c
}

func TestProp(t *testing.T) {
	rapid.Check(t, func(t *rapid.T) { eval(t, gen(t), "random", false) })
}

// FuzzHeader: native fuzzing of the raw header value against the same oracle
// (thorough tier only).
func FuzzHeader(f *testing.F) {
	for _, s := range []string{"", "Basic YWRtaW46c2VjcmV0", "Bearer tok", "bearer tok", "Basic", "Bearer ", "Basic  YWRtaW46c2VjcmV0", "x tok", "tok"} {
		f.Add(s, uint8(0))
	}
	f.Fuzz(func(t *testing.T, h string, cfg uint8) {
		if strings.ContainsAny(h, "\r\n\x00") {
			t.Skip()
		}
		c := Case{Headers: []string{h}, Method: "GET", Path: "/api/v1/dags"}
		switch cfg % 3 {
		case 0:
			c.Basic, c.User, c.Pass = true, "admin", "secret"
		case 1:
			c.Token, c.Tok = true, "tok"
		default:
			c.Basic, c.User, c.Pass, c.Token, c.Tok = true, "admin", "secret", true, "tok"
		}
		o := exec(c)
		if msg := judge(c, o); msg != "" {
			rep.WriteCase(ID, "fuzz", c, o, msg)
			t.Fatalf("%s: %q", msg, h)
		}
	})
}

func TestReplay(t *testing.T) {
	p := rep.ReplayPath()
	if p == "" {
		t.Skip("no VERIF_REPLAY")
	}
	cf, err := rep.LoadCase(p)
	if err != nil {
		t.Fatal(err)
	}
	if cf.Sub == "api" {
		replayAPI(t, cf.Case)
		return
	}
	var c Case
	if err := json.Unmarshal(cf.Case, &c); err != nil {
		t.Fatal(err)
	}
	eval(t, c, cf.Sub, false)
}
