package c17

import (
	"bytes"
	"encoding/json"
	"fmt"
	"net/http"
	"net/http/httptest"
	"os"
	"sort"
	"strings"
	"testing"
	"time"

	fdag "github.com/ErdemOzgen/blackdagger/internal/frontend/dag"
	"github.com/ErdemOzgen/blackdagger/internal/frontend/gen/restapi"
	"github.com/ErdemOzgen/blackdagger/internal/frontend/gen/restapi/operations"
	"github.com/ErdemOzgen/blackdagger/internal/frontend/middleware"
	"github.com/ErdemOzgen/blackdagger/verifharness/agentkit"
	"github.com/ErdemOzgen/blackdagger/verifharness/rep"
	"github.com/ErdemOzgen/blackdagger/verifharness/sim"
	"github.com/go-openapi/loads"
	"pgregory.net/rapid"
)

// The real API behind the real middleware chain: the generated swagger API
// configured by the frontend handler over real stores, wrapped exactly as the
// server does (middleware.Setup + SetupGlobalMiddleware). A request that is
// rejected must have had no effect (nothing created, deleted, started,
// suspended); an accepted one must reach the operation.

// APICase is one state-changing request under one auth configuration.
type APICase struct {
	Auth    Case   `json:"auth"` // configuration + Authorization headers (method / path unused)
	Request int    `json:"request"`
	DagName string `json:"dagName"`
}

var apiRequests = []struct{ method, path, body string }{
	{"POST", "/api/v1/dags", `{"action":"new","value":"%s"}`},
	{"DELETE", "/api/v1/dags/existing", ``},
	{"POST", "/api/v1/dags/existing", `{"action":"start","params":"p1"}`},
	{"POST", "/api/v1/dags/existing", `{"action":"suspend","value":"true"}`},
	{"POST", "/api/v1/dags/existing", `{"action":"save","value":"steps:\n  - name: changed\n    command: \"true\"\n"}`},
	{"POST", "/api/v1/dags/existing", `{"action":"rename","value":"renamed"}`},
	{"GET", "/api/v1/dags", ``},
	{"GET", "/api/v1/dags/existing", ``},
}

func dumpHome(h *agentkit.Home) string {
	var out []string
	ents, _ := os.ReadDir(h.DAGs)
	for _, e := range ents {
		b, _ := os.ReadFile(h.DAGs + "/" + e.Name())
		out = append(out, e.Name()+"="+string(b))
	}
	fl, _ := os.ReadDir(h.Flags)
	for _, e := range fl {
		out = append(out, "flag:"+e.Name())
	}
	b, _ := os.ReadFile(h.Dir + "/fakeexe.log")
	out = append(out, "exe:"+string(b))
	sort.Strings(out)
	return strings.Join(out, "\n")
}

func checkAPI(t rep.Fataler, ac APICase) {
	snap := agentkit.EnvSnapshot()
	defer agentkit.RestoreEnv(snap)
	h, err := agentkit.NewHome(os.Getenv("VERIF_TOOL_FAKEEXE"))
	if err != nil {
		t.Fatalf("home: %v", err)
	}
	defer h.Cleanup()
	os.Setenv("VERIF_FAKEEXE_LOG", h.Dir+"/fakeexe.log")
	h.WriteDAG("existing", "steps:\n  - name: s1\n    command: \"true\"\n")
	spec, err := loads.Analyzed(restapi.SwaggerJSON, "")
	if err != nil {
		t.Fatalf("spec: %v", err)
	}
	api := operations.NewBlackdaggerAPI(spec)
	api.Logger = func(string, ...any) {}
	fdag.NewHandler(&fdag.NewHandlerArgs{Client: h.Cli}, nil, "").Configure(api)
	c := ac.Auth
	opts := &middleware.Options{Handler: http.NotFoundHandler(), Logger: sim.Quiet}
	if c.Basic {
		opts.AuthBasic = &middleware.AuthBasic{Username: c.User, Password: c.Pass}
	}
	if c.Token {
		opts.AuthToken = &middleware.AuthToken{Token: c.Tok}
	}
	middleware.Setup(opts)
	handler := middleware.SetupGlobalMiddleware(api.Serve(nil))
	rq := apiRequests[ac.Request%len(apiRequests)]
	body := rq.body
	if strings.Contains(body, "%s") {
		body = fmt.Sprintf(body, ac.DagName)
	}
	before := dumpHome(h)
	req := httptest.NewRequest(rq.method, "http://example.test"+rq.path, bytes.NewReader([]byte(body)))
	req.Header.Set("Content-Type", "application/json")
	for _, hv := range c.Headers {
		req.Header.Add("Authorization", hv)
	}
	rec := httptest.NewRecorder()
	handler.ServeHTTP(rec, req)
	// StartAsync spawns in the background: give an (unauthorised!) spawn a moment to show
	if rq.method != "GET" && strings.Contains(body, `"start"`) {
		// an ACCEPTED start is waited for (event, generous bound: the spawn is
		// asynchronous and the machine may be busy); a refused one gets 200 ms in
		// which an unauthorised spawn would show
		n := 40
		if rec.Code/100 == 2 {
			n = 2000 * sim.LoadFactor()
		}
		for i := 0; i < n; i++ {
			if b, _ := os.ReadFile(h.Dir + "/fakeexe.log"); len(b) > 0 {
				break
			}
			sleepMS(5)
		}
	}
	after := dumpHome(h)
	authOn := c.Basic || c.Token
	pb, pt := presents(c)
	obs := map[string]any{"status": rec.Code, "request": rq.method + " " + rq.path + " " + body, "response": trunc(rec.Body.String())}
	if authOn && !pb && !pt {
		if rec.Code != http.StatusUnauthorized {
			rep.Fail(t, ID, "api", ac, obs, "%s %s without valid credentials answered %d, expected 401", rq.method, rq.path, rec.Code)
		}
		if before != after {
			rep.Fail(t, ID, "api", ac, obs, "%s %s without valid credentials had an effect:\nbefore:\n%s\nafter:\n%s", rq.method, rq.path, trunc(before), trunc(after))
		}
	}
	if (!authOn || standardForm(c)) && rec.Code == http.StatusUnauthorized {
		rep.Fail(t, ID, "api", ac, obs, "%s %s with credentials in standard form (or auth off) answered 401", rq.method, rq.path)
	}
	if (!authOn || standardForm(c)) && rq.method != "GET" && rec.Code/100 == 2 && before == after && ac.Request%len(apiRequests) != 4 {
		rep.Fail(t, ID, "api", ac, obs, "%s %s was accepted (%d) but had no effect — the request did not reach the operation", rq.method, rq.path, rec.Code)
	}
	key := ""
	if authOn && len(c.Headers) > 0 {
		key = rep.Hash(ac)
	}
	rep.Eval(key, "api:"+rq.method, fmt.Sprintf("api-status:%d", rec.Code))
	if key != "" && rep.WantSample() {
		rep.Sample(map[string]any{"stage": "api", "config": map[string]any{"basic": c.Basic, "token": c.Token}, "headers": c.Headers, "request": obs["request"], "status": rec.Code})
	}
}

func sleepMS(n int) { time.Sleep(time.Duration(n) * time.Millisecond) }

func trunc(s string) string {
	if len(s) > 400 {
		return s[:400] + "…"
	}
	return s
}

func TestAPI(t *testing.T) {
	if os.Getenv("VERIF_TOOL_FAKEEXE") == "" {
		t.Fatal("VERIF_TOOL_FAKEEXE not set")
	}
	rapid.Check(t, func(t *rapid.T) {
		c := gen(t)
		ac := APICase{Auth: c, Request: rapid.IntRange(0, len(apiRequests)-1).Draw(t, "request"), DagName: rapid.SampledFrom([]string{"fresh", "other", "x1"}).Draw(t, "dagName")}
		checkAPI(t, ac)
	})
}

func replayAPI(t *testing.T, raw json.RawMessage) {
	var ac APICase
	if err := json.Unmarshal(raw, &ac); err != nil {
		t.Fatal(err)
	}
	checkAPI(t, ac)
}
