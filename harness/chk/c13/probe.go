package c13

import (
	"bytes"
	"errors"
	"io"

	"gopkg.in/yaml.v2"
)

// probeYAML tells whether the bytes decode as a YAML mapping (used only to
// classify cases for the evidence, never for the verdict).
func probeYAML(data []byte) (m map[string]any, err error) {
	defer func() {
		if r := recover(); r != nil {
			err = errors.New("decoder panic")
		}
	}()
	err = yaml.NewDecoder(bytes.NewReader(data)).Decode(&m)
	if errors.Is(err, io.EOF) {
		err = nil
	}
	return
}
