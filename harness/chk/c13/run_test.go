package c13

import (
	"context"
	"fmt"
	"os"
	"path/filepath"
	"testing"
	"time"

	"github.com/ErdemOzgen/blackdagger/internal/dag"
	"github.com/ErdemOzgen/blackdagger/internal/persistence/model"
	"github.com/ErdemOzgen/blackdagger/verifharness/agentkit"
	"github.com/ErdemOzgen/blackdagger/verifharness/rep"
	"github.com/ErdemOzgen/blackdagger/verifharness/sim"
	"github.com/ErdemOzgen/blackdagger/verifharness/yamlgen"
	"pgregory.net/rapid"
)

// "…or yields a runnable DAG": grammar-generated (possibly mutated) definitions
// that the evaluating loader accepts are really run by the agent in-process —
// with every step's and handler's executor replaced by the scripted one, repeat
// policies and mail settings cleared (the run must not loop forever or talk to
// an SMTP host) — and must produce a recorded status that the history returns.
func checkRun(t rep.Fataler, c Case) {
	rep.Begin(ID, "run", c)
	snap := agentkit.EnvSnapshot()
	defer agentkit.RestoreEnv(snap)
	h, err := agentkit.NewHome("/bin/false")
	if err != nil {
		t.Fatalf("home: %v", err)
	}
	defer h.Cleanup()
	os.Setenv("HOME", h.Dir)
	cwd, _ := os.Getwd()
	os.Chdir(h.Dir)
	defer os.Chdir(cwd)
	text := c.text()
	file := filepath.Join(h.DAGs, "gen.yaml")
	os.WriteFile(file, text, 0o644)
	var d *dag.DAG
	func() {
		defer func() {
			if r := recover(); r != nil {
				err = fmt.Errorf("panic: %v", r)
			}
		}()
		d, err = dag.Load("", file, "")
	}()
	if err != nil || d == nil {
		rep.Eval("", "run:rejected-by-loader")
		return
	}
	scripts := map[string]sim.Script{}
	verif := func(s *dag.Step) {
		s.ExecutorConfig = dag.ExecutorConfig{Type: sim.ExecType, Config: map[string]any{}}
		s.RepeatPolicy = dag.RepeatPolicy{}
		if s.RetryPolicy != nil && s.RetryPolicy.Interval > 10*time.Millisecond {
			s.RetryPolicy.Interval = 10 * time.Millisecond
		}
		s.SubWorkflow = nil
		scripts[s.Name] = sim.Script{SelfExit: true}
	}
	for i := range d.Steps {
		verif(&d.Steps[i])
	}
	for _, hs := range []*dag.Step{d.HandlerOn.Exit, d.HandlerOn.Success, d.HandlerOn.Failure, d.HandlerOn.Cancel} {
		if hs != nil {
			verif(hs)
		}
	}
	d.MailOn, d.ErrorMail, d.InfoMail, d.SMTP = nil, nil, nil, &dag.SMTPConfig{}
	if d.Delay > 20*time.Millisecond {
		d.Delay = 20 * time.Millisecond
	}
	d.Preconditions = nil
	w := sim.NewWorld(scripts)
	id := agentkit.NextReqID()
	done := make(chan error, 1)
	go func() { done <- h.NewAgent(id, d, nil).Run(context.Background()) }()
	var runErr error
	select {
	case runErr = <-done:
	case <-time.After(60 * time.Second * time.Duration(sim.LoadFactor())):
		w.ReleaseAll()
		rep.Fail(t, ID, "run", c, map[string]any{"yaml": string(text), "trace": w.Trace()}, "an accepted definition did not finish running within 60 s")
	}
	// a refused graph (C14) is an error, not a run; everything else must be recorded
	sf, ferr := h.NewDataStores().HistoryStore().FindByRequestID(d.Location, id)
	if ferr != nil {
		if runErr != nil && len(w.Trace()) == 0 {
			rep.Eval("", "run:refused-at-start")
			return
		}
		rep.Fail(t, ID, "run", c, map[string]any{"yaml": string(text), "runErr": fmt.Sprint(runErr)}, "an accepted definition was run (%d executor events, err=%v) but its run is not in the history: %v", len(w.Trace()), runErr, ferr)
	}
	b, jerr := sf.Status.ToJSON()
	if jerr != nil {
		rep.Fail(t, ID, "run", c, map[string]any{"yaml": string(text)}, "the recorded status of the run cannot be serialised: %v", jerr)
	}
	if _, perr := model.StatusFromJSON(string(b)); perr != nil {
		rep.Fail(t, ID, "run", c, map[string]any{"yaml": string(text)}, "the recorded status does not round-trip: %v", perr)
	}
	if len(sf.Status.Nodes) != len(d.Steps) {
		rep.Fail(t, ID, "run", c, map[string]any{"yaml": string(text)}, "recorded status has %d nodes, the definition %d steps", len(sf.Status.Nodes), len(d.Steps))
	}
	for _, n := range sf.Status.Nodes {
		if s := n.Status.String(); s == "running" || s == "not started" {
			// not started is legitimate only below a failed / skipped / canceled dependency — the
			// scheduler marks those canceled/skipped; anything left 'running' is wrong
			if s == "running" {
				rep.Fail(t, ID, "run", c, map[string]any{"yaml": string(text)}, "after the run ended step %q is recorded %q", n.Step.Name, s)
			}
		}
	}
	key := ""
	if len(c.Muts) > 0 {
		key = rep.Hash(string(text))
	}
	rep.Eval(key, "run:executed", "run:final-"+sf.Status.Status.String())
	if key != "" && rep.WantSample() {
		y := string(text)
		if len(y) > 500 {
			y = y[:500] + "…"
		}
		rep.Sample(map[string]any{"stage": "run", "yaml": y, "final": sf.Status.Status.String(), "events": len(w.Trace())})
	}
}

func TestRun(t *testing.T) {
	rapid.Check(t, func(t *rapid.T) {
		ch := yamlgen.GenChoice(t)
		c := Case{Choice: &ch, Muts: yamlgen.GenMutations(t, 2)}
		checkRun(t, c)
	})
}
