// C13 — any file content is either rejected with an error or yields a runnable DAG.
package c13

import (
	"encoding/json"
	"fmt"
	"os"
	"path/filepath"
	"reflect"
	"regexp"
	"runtime/debug"
	"strings"
	"testing"
	"time"

	"github.com/ErdemOzgen/blackdagger/internal/dag"
	"github.com/ErdemOzgen/blackdagger/internal/dag/scheduler"
	"github.com/ErdemOzgen/blackdagger/internal/persistence/model"
	"github.com/ErdemOzgen/blackdagger/verifharness/rep"
	"github.com/ErdemOzgen/blackdagger/verifharness/sim"
	"github.com/ErdemOzgen/blackdagger/verifharness/yamlgen"
	"github.com/robfig/cron/v3"
	"golang.org/x/sys/unix"
	"pgregory.net/rapid"
)

const ID = "C13"

func TestMain(m *testing.M) { rep.Main(m, ID) }

// Case is a grammar case (Choice+Muts) or a raw byte case (Raw).
type Case struct {
	Choice *yamlgen.Choice    `json:"choice,omitempty"`
	Muts   []yamlgen.Mutation `json:"muts,omitempty"`
	Raw    *string            `json:"raw,omitempty"`
	YAML   string             `json:"yaml,omitempty"` // informational: the text that was loaded
}

func (c *Case) text() []byte {
	if c.Raw != nil {
		return []byte(*c.Raw)
	}
	m := yamlgen.Build(*c.Choice, yamlgen.Identity)
	m, _ = yamlgen.Apply(m, c.Muts)
	return yamlgen.Marshal(m)
}

var scratch string

func scratchDir() string {
	if scratch == "" {
		d, err := os.MkdirTemp(sim.ScratchRoot(), "vc13")
		if err != nil {
			panic(err)
		}
		scratch = d
	}
	return scratch
}

var whitelistTick = regexp.MustCompile("`[^`]*`")

// safeToLoad: a byte input may contain command substitutions only from the
// whitelist of harmless commands (the loader is *supposed* not to run them,
// but a root process does not bet on it).
func safeToLoad(data []byte) bool {
	s := string(data)
	low := strings.ToLower(s)
	for _, esc := range []string{"\\x60", "\\u0060", "\\u00000060", "\\140"} {
		if strings.Contains(low, esc) {
			return false
		}
	}
	if strings.Count(s, "`")%2 == 1 {
		return false
	}
	for _, m := range whitelistTick.FindAllString(s, -1) {
		switch m {
		case "`echo x`", "`echo hello`", "`date`", "`true`", "`echo 1`":
		default:
			return false
		}
	}
	return !strings.Contains(s, "$(")
}

type result struct {
	violation string
	accepted  int
	rejected  int
	byBuilder bool // rejected by the builder, not by the YAML decoder
	isMapping bool
}

func guard(name string, f func() (*dag.DAG, error)) (d *dag.DAG, err error, v string) {
	defer func() {
		if r := recover(); r != nil {
			st := string(debug.Stack())
			if i := strings.Index(st, "panic("); i >= 0 {
				st = st[i:]
			}
			if len(st) > 900 {
				st = st[:900]
			}
			v = fmt.Sprintf("%s panicked: %v\n%s", name, r, st)
		}
	}()
	t0 := time.Now()
	d, err = f()
	if el := time.Since(t0); el > 5*time.Second {
		// re-run once: only a second slow call counts
		t1 := time.Now()
		d, err = f()
		if time.Since(t1) > 5*time.Second {
			v = fmt.Sprintf("%s took %v (twice)", name, el)
		}
	}
	if v == "" && err == nil && d == nil {
		v = name + " returned neither an error nor a DAG"
	}
	return
}

// staticChecks: what an accepted definition must satisfy.
func staticChecks(d *dag.DAG, full bool, evalConds bool) (v string) {
	defer func() {
		if r := recover(); r != nil {
			st := string(debug.Stack())
			if i := strings.Index(st, "panic("); i >= 0 {
				st = st[i:]
			}
			if len(st) > 900 {
				st = st[:900]
			}
			v = fmt.Sprintf("using the accepted DAG panicked: %v\n%s", r, st)
		}
	}()
	steps := []*dag.Step{}
	for i := range d.Steps {
		steps = append(steps, &d.Steps[i])
	}
	for _, h := range []*dag.Step{d.HandlerOn.Exit, d.HandlerOn.Success, d.HandlerOn.Failure, d.HandlerOn.Cancel} {
		if h != nil {
			steps = append(steps, h)
		}
	}
	for _, s := range steps {
		if s.Name == "" {
			return "accepted definition has a step without a name"
		}
		if s.Command == "" && s.CmdWithArgs == "" && s.Script == "" && s.ExecutorConfig.Type == "" && s.SubWorkflow == nil {
			return fmt.Sprintf("accepted definition has step %q with nothing to execute (no command, script, executor type, call or sub-workflow)", s.Name)
		}
		if s.SignalOnStop != "" && unix.SignalNum(s.SignalOnStop) == 0 {
			return fmt.Sprintf("accepted definition has step %q with invalid signalOnStop %q", s.Name, s.SignalOnStop)
		}
		if evalConds && len(s.Preconditions) > 0 && condsSafe(s.Preconditions) {
			_ = dag.EvalConditions(s.Preconditions)
		}
	}
	std := cron.NewParser(cron.Minute | cron.Hour | cron.Dom | cron.Month | cron.Dow)
	for _, group := range [][]dag.Schedule{d.Schedule, d.StopSchedule, d.RestartSchedule} {
		for _, sc := range group {
			if sc.Parsed == nil {
				return fmt.Sprintf("accepted definition carries schedule %q without a parsed cron schedule", sc.Expression)
			}
			_ = sc.Parsed.Next(time.Date(2024, 1, 1, 0, 0, 0, 0, time.UTC))
			if _, err := std.Parse(sc.Expression); err != nil {
				return fmt.Sprintf("accepted definition carries cron expression %q that a standard 5-field parser rejects: %v", sc.Expression, err)
			}
		}
	}
	if !full {
		return ""
	}
	if evalConds && len(d.Preconditions) > 0 && condsSafe(d.Preconditions) {
		_ = dag.EvalConditions(d.Preconditions)
	}
	st := model.NewStatus(d, nil, scheduler.StatusNone, 1, nil, nil)
	b, err := st.ToJSON()
	if err != nil {
		return fmt.Sprintf("status of the accepted DAG is not serialisable: %v", err)
	}
	back, err := model.StatusFromJSON(string(b))
	if err != nil {
		return fmt.Sprintf("serialised status of the accepted DAG cannot be read back: %v", err)
	}
	b2, err := back.ToJSON()
	if err != nil || !jsonEqual(b, b2) {
		return fmt.Sprintf("status of the accepted DAG does not round-trip through JSON (err=%v)", err)
	}
	_, _ = scheduler.NewExecutionGraph(sim.Quiet, d.Steps...)
	return ""
}

func condsSafe(cs []dag.Condition) bool {
	for _, c := range cs {
		if !safeToLoad([]byte(c.Condition)) {
			return false
		}
	}
	return true
}

func jsonEqual(a, b []byte) bool {
	var x, y any
	if json.Unmarshal(a, &x) != nil || json.Unmarshal(b, &y) != nil {
		return false
	}
	return reflect.DeepEqual(x, y)
}

var fileSeq int

func loadAll(data []byte, allowEval bool) result {
	var r result
	var probe map[string]any
	if m, err := probeYAML(data); err == nil && m != nil {
		probe = m
		r.isMapping = true
	}
	_ = probe
	type ep struct {
		name string
		full bool
		f    func() (*dag.DAG, error)
	}
	fileSeq++
	file := filepath.Join(scratchDir(), fmt.Sprintf("case%d.yaml", fileSeq%8))
	_ = os.WriteFile(file, data, 0o644)
	eps := []ep{
		{"LoadYAML", true, func() (*dag.DAG, error) { return dag.LoadYAML(data) }},
		{"LoadMetadata", false, func() (*dag.DAG, error) { return dag.LoadMetadata(file) }},
		{"LoadWithoutEval", true, func() (*dag.DAG, error) { return dag.LoadWithoutEval(file) }},
	}
	if allowEval {
		eps = append(eps, ep{"Load", true, func() (*dag.DAG, error) { return dag.Load("", file, "") }})
	}
	for _, e := range eps {
		d, err, v := guard(e.name, e.f)
		if v != "" {
			r.violation = v
			return r
		}
		if err != nil {
			r.rejected++
			if r.isMapping {
				r.byBuilder = true
			}
			continue
		}
		r.accepted++
		if v := staticChecks(d, e.full, true); v != "" {
			r.violation = e.name + ": " + v
			return r
		}
	}
	return r
}

func check(t rep.Fataler, c Case, sub string) {
	data := c.text()
	if !safeToLoad(data) {
		rep.Label("skipped:unsafe-substitution")
		return
	}
	res := loadAll(data, c.Raw == nil)
	if res.violation != "" {
		c.YAML = string(data)
		if len(c.YAML) > 4000 {
			c.YAML = c.YAML[:4000] + "…"
		}
		rep.Fail(t, ID, sub, c, nil, "%s", res.violation)
	}
	nt := res.isMapping && (res.accepted > 0 || res.byBuilder) && (c.Raw != nil || len(c.Muts) >= 1)
	labels := []string{}
	switch {
	case res.accepted > 0 && res.rejected == 0:
		labels = append(labels, "accepted-by-all")
	case res.accepted > 0:
		labels = append(labels, "accepted-by-some")
	case res.byBuilder:
		labels = append(labels, "rejected-by-builder")
	default:
		labels = append(labels, "rejected-by-yaml-decoder")
	}
	labels = append(labels, fmt.Sprintf("mutations:%d", len(c.Muts)))
	key := ""
	if nt {
		key = rep.Hash(string(data))
	}
	rep.Eval(key, labels...)
	if nt && rep.WantSample() && len(data) < 1500 {
		rep.Sample(map[string]any{"yaml": string(data), "accepted_by": res.accepted, "rejected_by": res.rejected})
	}
}

func TestProp(t *testing.T) {
	rapid.Check(t, func(t *rapid.T) {
		ch := yamlgen.GenChoice(t)
		if rapid.IntRange(0, 7).Draw(t, "hollow") == 0 {
			// one step that has an `executor` key saying nothing and nothing else to execute
			ch.StepKinds[rapid.IntRange(0, len(ch.StepKinds)-1).Draw(t, "hollowStep")] = rapid.IntRange(7, 10).Draw(t, "hollowKind")
		}
		if rapid.IntRange(0, 7).Draw(t, "signalName") == 0 {
			// the first step stops on a signal named in one of many spellings
			ch.Extras |= 128
			ch.Signal = rapid.SampledFrom(yamlgen.SignalNames).Draw(t, "signal")
		}
		c := Case{Choice: &ch, Muts: yamlgen.GenMutations(t, 3)}
		check(t, c, "grammar")
	})
}

// TestCorpus replays the seed corpus (the repository's fixture files and the
// hostile constants under /verif/corpus/C13) through the byte-level path.
func TestCorpus(t *testing.T) {
	for _, dir := range []string{filepath.Join(repoDir(), "internal/dag/testdata"), filepath.Join(os.Getenv("VERIF_ROOT"), "corpus", ID)} {
		ents, _ := os.ReadDir(dir)
		for _, e := range ents {
			if e.IsDir() {
				continue
			}
			b, err := os.ReadFile(filepath.Join(dir, e.Name()))
			if err != nil {
				continue
			}
			s := string(b)
			check(t, Case{Raw: &s}, "corpus")
		}
	}
}

func FuzzLoad(f *testing.F) {
	for _, dir := range []string{filepath.Join(repoDir(), "internal/dag/testdata"), filepath.Join(os.Getenv("VERIF_ROOT"), "corpus", ID)} {
		ents, _ := os.ReadDir(dir)
		for _, e := range ents {
			if b, err := os.ReadFile(filepath.Join(dir, e.Name())); err == nil && len(b) < 20000 {
				f.Add(b)
			}
		}
	}
	f.Fuzz(func(t *testing.T, data []byte) {
		if !safeToLoad(data) {
			t.Skip()
		}
		res := loadAll(data, false)
		if res.violation != "" {
			s := string(data)
			rep.WriteCase(ID, "fuzz", Case{Raw: &s}, nil, res.violation)
			t.Fatalf("%s", res.violation)
		}
	})
}

func TestReplay(t *testing.T) {
	p := rep.ReplayPath()
	if p == "" {
		t.Skip("no VERIF_REPLAY")
	}
	cf, err := rep.LoadCase(p)
	if err != nil {
		t.Fatal(err)
	}
	var c Case
	if err := json.Unmarshal(cf.Case, &c); err != nil {
		t.Fatal(err)
	}
	if cf.Sub == "run" {
		checkRun(t, c)
		return
	}
	check(t, c, cf.Sub)
}

func repoDir() string {
	if d := os.Getenv("VERIF_REPO_DIR"); d != "" {
		return d
	}
	return "/repo"
}
