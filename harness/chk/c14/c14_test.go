// C14 — only well-formed dependency graphs are admitted to execution.
package c14

import (
	"time"

	"encoding/json"
	"fmt"
	"github.com/ErdemOzgen/blackdagger/internal/persistence/model"
	"testing"

	"github.com/ErdemOzgen/blackdagger/internal/dag"
	"github.com/ErdemOzgen/blackdagger/internal/dag/scheduler"
	"github.com/ErdemOzgen/blackdagger/verifharness/rep"
	"github.com/ErdemOzgen/blackdagger/verifharness/sim"
	"pgregory.net/rapid"
)

const ID = "C14"

func TestMain(m *testing.M) { rep.Main(m, ID) }

// Graph is the plain-data case: Deps[i] are the names step i depends on, in
// declaration order Names.
type Graph struct {
	Names []string   `json:"names"`
	Deps  [][]string `json:"deps"`
}

// wellFormed is the independent oracle: all names resolve and a three-colour
// DFS finds no cycle (self-loops included).
func wellFormed(g Graph) (bool, string) {
	idx := map[string]int{}
	for i, n := range g.Names {
		idx[n] = i
	}
	adj := make([][]int, len(g.Names))
	for i, ds := range g.Deps {
		for _, d := range ds {
			j, ok := idx[d]
			if !ok {
				return false, "dangling"
			}
			adj[i] = append(adj[i], j)
		}
	}
	color := make([]int, len(g.Names))
	var visit func(int) bool
	visit = func(u int) bool {
		color[u] = 1
		for _, v := range adj[u] {
			if color[v] == 1 {
				return true
			}
			if color[v] == 0 && visit(v) {
				return true
			}
		}
		color[u] = 2
		return false
	}
	for i := range g.Names {
		if color[i] == 0 && visit(i) {
			return false, "cyclic"
		}
	}
	return true, "acyclic"
}

func admitted(g Graph) error {
	steps := make([]dag.Step, len(g.Names))
	for i, n := range g.Names {
		steps[i] = dag.Step{Name: n, Command: "true", Depends: g.Deps[i]}
	}
	_, err := scheduler.NewExecutionGraph(sim.Quiet, steps...)
	return err
}

// admittedRetry: the other way into execution — the steps of a recorded run
// (here: every step recorded failed, or alternately finished / failed) are
// handed to the retry graph builder the way `retry` does it, through the
// persistence encoding. hung reports that the builder did not return.
func admittedRetry(g Graph, mayHang bool) (err error, hung bool) {
	data := make([]scheduler.NodeData, len(g.Names))
	for i, n := range g.Names {
		st := scheduler.NodeStatusError
		if (len(g.Names)+i)%3 == 0 {
			st = scheduler.NodeStatusSuccess
		}
		data[i] = scheduler.NodeData{Step: dag.Step{Name: n, Command: "true", Depends: g.Deps[i]}, State: scheduler.NodeState{Status: st}}
	}
	var nodes []*scheduler.Node
	for _, mn := range model.FromNodes(data) {
		nodes = append(nodes, mn.ToNode())
	}
	if !mayHang {
		_, err = scheduler.NewExecutionGraphForRetry(sim.Quiet, nodes...)
		return err, false
	}
	ch := make(chan error, 1)
	go func() {
		_, err := scheduler.NewExecutionGraphForRetry(sim.Quiet, nodes...)
		ch <- err
	}()
	select {
	case err = <-ch:
		return err, false
	case <-time.After(3 * time.Second * time.Duration(sim.LoadFactor())):
		return nil, true
	}
}

func judge(g Graph) (string, string) {
	ok, class := wellFormed(g)
	err := admitted(g)
	if ok && err != nil {
		return fmt.Sprintf("well-formed graph refused: %v", err), class
	}
	if !ok && err == nil {
		return fmt.Sprintf("%s graph admitted for execution", class), class
	}
	rerr, hung := admittedRetry(g, !ok)
	switch {
	case hung:
		return fmt.Sprintf("%s graph handed to the retry of a recorded run: the graph builder never returns instead of refusing it", class), class
	case ok && rerr != nil:
		return fmt.Sprintf("well-formed graph refused for the retry of a recorded run: %v", rerr), class
	case !ok && rerr == nil:
		return fmt.Sprintf("%s graph admitted for execution as the retry of a recorded run", class), class
	}
	return "", class
}

var names = []string{"s0", "s1", "s2", "s3", "s4"}

// fromMask builds the digraph on n steps whose edge i->j (i depends on j) is
// bit i*n+j of mask; with selfLoops=false the diagonal is skipped in the numbering.
func fromMask(n int, mask uint64, selfLoops bool) Graph {
	g := Graph{Names: names[:n], Deps: make([][]string, n)}
	bit := 0
	for i := 0; i < n; i++ {
		for j := 0; j < n; j++ {
			if i == j && !selfLoops {
				continue
			}
			if mask&(1<<uint(bit)) != 0 {
				g.Deps[i] = append(g.Deps[i], names[j])
			}
			bit++
		}
	}
	return g
}

func edges(g Graph) int {
	n := 0
	for _, d := range g.Deps {
		n += len(d)
	}
	return n
}

func evalEnum(t *testing.T, g Graph, sub string) {
	msg, class := judge(g)
	if msg != "" {
		rep.Fail(t, ID, sub, g, nil, "%s", msg)
	}
	rep.EvalCounted(edges(g) >= 1, "class:"+class)
	// the same graph with one dangling dependency name on its first step
	d := Graph{Names: g.Names, Deps: append([][]string{append(append([]string{}, g.Deps[0]...), "ghost")}, g.Deps[1:]...)}
	msg, class = judge(d)
	if msg != "" {
		rep.Fail(t, ID, sub, d, nil, "%s", msg)
	}
	rep.EvalCounted(true, "class:"+class)
}

// evalDup judges every variant of g in which one `depends` entry is listed
// twice or three times (a multigraph: the verdict must not change).
func evalDup(t *testing.T, g Graph, sub string) {
	for i := range g.Deps {
		for k := range g.Deps[i] {
			for _, times := range []int{1, 2} {
				d := Graph{Names: g.Names, Deps: append([][]string{}, g.Deps...)}
				// the duplicate goes in front of, or behind, the other entries
				dup := append([]string{}, g.Deps[i]...)
				for x := 0; x < times; x++ {
					if (k+x)%2 == 0 {
						dup = append(dup, g.Deps[i][k])
					} else {
						dup = append([]string{g.Deps[i][k]}, dup...)
					}
				}
				d.Deps[i] = dup
				msg, class := judge(d)
				if msg != "" {
					rep.Fail(t, ID, sub, d, nil, "%s (an entry of `depends` is listed %d times)", msg, times+1)
				}
				rep.EvalCounted(true, "class:"+class, "duplicate-depends-entry")
			}
		}
	}
}

// TestExhaustive enumerates every digraph (self-loops included) on <= 4 steps
// and loop-free edge sets on 5 steps (quick: a 2^16 stride sample; thorough: all 2^20).
func TestExhaustive(t *testing.T) {
	shard, nsh := rep.EnvInt("VERIF_SHARD", 0), rep.EnvInt("VERIF_NSHARDS", 1)
	for n := 1; n <= 4; n++ {
		total := uint64(1) << uint(n*n)
		for m := uint64(shard); m < total; m += uint64(nsh) {
			evalEnum(t, fromMask(n, m, true), "enum")
		}
	}
	dupN := 3
	if rep.Thorough() {
		dupN = 4
	}
	for n := 1; n <= dupN; n++ {
		total := uint64(1) << uint(n*n)
		for m := uint64(shard); m < total; m += uint64(nsh) {
			evalDup(t, fromMask(n, m, true), "enumdup")
		}
	}
	if shard == 0 {
		rep.ExhaustiveSpace("every digraph incl. self-loops on 1..4 named steps (2+16+512+65536 edge sets), each also with one dangling name")
		rep.ExhaustiveSpace(fmt.Sprintf("every digraph incl. self-loops on 1..%d named steps with any one depends entry listed two or three times", dupN))
	}
	total := uint64(1) << 20
	stride := uint64(16)
	if rep.Thorough() {
		stride = 1
	}
	seed := uint64(rep.EnvInt("VERIF_SEED", 1))
	cnt := uint64(0)
	for m := (seed % stride); m < total; m += stride {
		if cnt%uint64(nsh) == uint64(shard) {
			evalEnum(t, fromMask(5, m, false), "enum5")
		}
		cnt++
	}
	if shard == 0 && rep.Thorough() {
		rep.ExhaustiveSpace("all 2^20 loop-free edge sets on 5 named steps, each also with one dangling name")
	}
	if rep.WantSample() {
		rep.Sample(map[string]any{"graph": fromMask(4, 0x8421^0x10, true), "verdict": "see class histogram"})
	}
}

func genRandom(t *rapid.T) Graph {
	max := 40
	n := rapid.IntRange(1, max).Draw(t, "n")
	g := Graph{Deps: make([][]string, n)}
	for i := 0; i < n; i++ {
		g.Names = append(g.Names, fmt.Sprintf("n%02d", i))
	}
	// acyclic skeleton over a random topological order
	order := rapid.Permutation(g.Names).Draw(t, "topo")
	pos := map[string]int{}
	for i, nm := range order {
		pos[nm] = i
	}
	dens := rapid.IntRange(1, 6).Draw(t, "density")
	for i := 0; i < n; i++ {
		for j := 0; j < n; j++ {
			if pos[g.Names[j]] < pos[g.Names[i]] && rapid.IntRange(0, dens*n/4+1).Draw(t, "e") == 0 {
				g.Deps[i] = append(g.Deps[i], g.Names[j])
			}
		}
	}
	switch rapid.IntRange(0, 7).Draw(t, "plant") {
	case 0: // long cycle along the topological order's reverse
		k := rapid.IntRange(2, n+1).Draw(t, "cycleLen")
		if k > n {
			k = n
		}
		if k >= 2 {
			start := rapid.IntRange(0, n-k).Draw(t, "cycleStart")
			for x := 0; x < k; x++ {
				a, b := order[start+x], order[start+(x+1)%k]
				ia := idxOf(g.Names, a)
				g.Deps[ia] = append(g.Deps[ia], b)
			}
		}
	case 1: // self-loop
		i := rapid.IntRange(0, n-1).Draw(t, "self")
		g.Deps[i] = append(g.Deps[i], g.Names[i])
	case 2: // back edge (cycle iff a path exists)
		i := rapid.IntRange(0, n-1).Draw(t, "bi")
		j := rapid.IntRange(0, n-1).Draw(t, "bj")
		g.Deps[i] = append(g.Deps[i], g.Names[j])
	case 3: // two disjoint 2-cycles
		if n >= 4 {
			g.Deps[0] = append(g.Deps[0], g.Names[1])
			g.Deps[1] = append(g.Deps[1], g.Names[0])
			g.Deps[n-1] = append(g.Deps[n-1], g.Names[n-2])
			g.Deps[n-2] = append(g.Deps[n-2], g.Names[n-1])
		}
	case 4: // dangling name
		i := rapid.IntRange(0, n-1).Draw(t, "di")
		g.Deps[i] = append(g.Deps[i], rapid.SampledFrom([]string{"ghost", "", "n0", "N00", "n00 "}).Draw(t, "dname"))
	case 5: // duplicate depends entries
		i := rapid.IntRange(0, n-1).Draw(t, "dup")
		if len(g.Deps[i]) > 0 {
			g.Deps[i] = append(g.Deps[i], g.Deps[i][0], g.Deps[i][0])
		}
	}
	// independently of what was planted: some entries listed more than once
	if rapid.IntRange(0, 2).Draw(t, "dups") == 0 {
		for x := rapid.IntRange(1, 3).Draw(t, "nDup"); x > 0; x-- {
			i := rapid.IntRange(0, n-1).Draw(t, "dupStep")
			if len(g.Deps[i]) > 0 {
				e := g.Deps[i][rapid.IntRange(0, len(g.Deps[i])-1).Draw(t, "dupEntry")]
				if rapid.Bool().Draw(t, "dupFront") {
					g.Deps[i] = append([]string{e}, g.Deps[i]...)
				} else {
					g.Deps[i] = append(g.Deps[i], e)
				}
			}
		}
	}
	// declaration order permuted
	perm := rapid.Permutation(seq(n)).Draw(t, "decl")
	out := Graph{}
	for _, i := range perm {
		out.Names = append(out.Names, g.Names[i])
		out.Deps = append(out.Deps, g.Deps[i])
	}
	return out
}

func seq(n int) []int {
	s := make([]int, n)
	for i := range s {
		s[i] = i
	}
	return s
}

func idxOf(s []string, v string) int {
	for i, x := range s {
		if x == v {
			return i
		}
	}
	return -1
}

func TestProp(t *testing.T) {
	rapid.Check(t, func(t *rapid.T) {
		g := genRandom(t)
		msg, class := judge(g)
		if msg != "" {
			rep.Fail(t, ID, "random", g, nil, "%s", msg)
		}
		key := ""
		if edges(g) >= 1 {
			key = rep.Hash(g)
		}
		size := "n<=5"
		if len(g.Names) > 20 {
			size = "n>20"
		} else if len(g.Names) > 5 {
			size = "n6..20"
		}
		rep.Eval(key, "class:"+class, size)
		if key != "" && len(g.Names) <= 8 && rep.WantSample() {
			rep.Sample(map[string]any{"graph": g, "class": class})
		}
	})
}

func TestReplay(t *testing.T) {
	p := rep.ReplayPath()
	if p == "" {
		t.Skip("no VERIF_REPLAY")
	}
	cf, err := rep.LoadCase(p)
	if err != nil {
		t.Fatal(err)
	}
	if cf.Sub == "agent" {
		var ac AgentCase
		if err := json.Unmarshal(cf.Case, &ac); err != nil {
			t.Fatal(err)
		}
		checkAgent(t, ac)
		return
	}
	var g Graph
	if err := json.Unmarshal(cf.Case, &g); err != nil {
		t.Fatal(err)
	}
	if msg, _ := judge(g); msg != "" {
		rep.Fail(t, ID, cf.Sub, g, nil, "%s", msg)
	}
	rep.Eval(rep.Hash(g), "replayed")
}
