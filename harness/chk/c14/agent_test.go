package c14

import (
	"context"
	"os"
	"path/filepath"
	"strings"
	"testing"
	"time"

	"github.com/ErdemOzgen/blackdagger/internal/dag"
	"github.com/ErdemOzgen/blackdagger/verifharness/agentkit"
	"github.com/ErdemOzgen/blackdagger/verifharness/rep"
	"github.com/ErdemOzgen/blackdagger/verifharness/sim"
	"pgregory.net/rapid"
)

// Agent level: a definition whose dependency graph is not well-formed (a
// cycle, a self-loop, a dangling name) is refused at run time: the start
// reports an error, no step and no handler is executed, nothing is recorded,
// and the status view of the DAG (client.GetStatus) reports the same verdict.
// Well-formed variants of the same definitions run.

// AgentCase: an acyclic DagCase plus one defect.
type AgentCase struct {
	Dag    sim.Case `json:"dag"`
	Defect int      `json:"defect"` // 0 none, 1 back edge (cycle), 2 self-loop, 3 dangling name
	At     int      `json:"at"`
}

func checkAgent(t rep.Fataler, ac AgentCase) {
	rep.Begin(ID, "agent", ac)
	snap := agentkit.EnvSnapshot()
	defer agentkit.RestoreEnv(snap)
	h, err := agentkit.NewHome("/bin/false")
	if err != nil {
		t.Fatalf("home: %v", err)
	}
	defer h.Cleanup()
	c := ac.Dag
	c.Steps = append([]sim.StepSpec(nil), ac.Dag.Steps...)
	for i := range c.Steps {
		c.Steps[i].Depends = append([]string(nil), c.Steps[i].Depends...)
	}
	// find an edge to reverse / a node to corrupt
	bad := false
	switch ac.Defect {
	case 1:
		var withDeps []int
		for i, s := range c.Steps {
			if len(s.Depends) > 0 {
				withDeps = append(withDeps, i)
			}
		}
		if len(withDeps) > 0 {
			i := withDeps[ac.At%len(withDeps)]
			d := c.Steps[i].Depends[0]
			for j := range c.Steps {
				if c.Steps[j].Name == d {
					c.Steps[j].Depends = append(c.Steps[j].Depends, c.Steps[i].Name)
					bad = true
				}
			}
		}
	case 2:
		i := ac.At % len(c.Steps)
		c.Steps[i].Depends = append(c.Steps[i].Depends, c.Steps[i].Name)
		bad = true
	case 3:
		i := ac.At % len(c.Steps)
		c.Steps[i].Depends = append(c.Steps[i].Depends, "no_such_step")
		bad = true
	}
	file, _ := h.WriteDAG("g14", sim.YAML(&c, 0, ""))
	d, err := dag.Load("", file, "")
	if err != nil {
		if !bad {
			rep.Fail(t, ID, "agent", ac, map[string]any{"yaml": sim.YAML(&c, 0, "")}, "a definition whose dependency graph is well-formed (every name resolves, no cycle; steps are declared in an order of their own, not in execution order) is refused by the loader: %v", err)
		}
		// refused already by the loader: nothing can run; fine
		rep.Eval("", "refused-by-loader")
		return
	}
	_, scripts := sim.BuildSteps(&c)
	for k, s := range scripts {
		s.SelfExit = true
		scripts[k] = s
	}
	w := sim.NewWorld(scripts)
	done := make(chan error, 1)
	go func() { done <- h.NewAgent(agentkit.NextReqID(), d, nil).Run(context.Background()) }()
	var runErr error
	select {
	case runErr = <-done:
	case <-time.After(40 * time.Second * time.Duration(sim.LoadFactor())):
		w.ReleaseAll()
		rep.Fail(t, ID, "agent", ac, map[string]any{"trace": w.Trace()}, "the start of a definition with defect %d did not return within 40 s (a cyclic graph admitted to execution never ends)", ac.Defect)
	}
	tr := w.Trace()
	st, gerr := h.Cli.GetStatus("g14")
	if bad {
		if runErr == nil {
			rep.Fail(t, ID, "agent", ac, map[string]any{"trace": tr}, "a definition whose dependency graph is not well-formed (defect %d) was run without an error", ac.Defect)
		}
		if len(tr) > 0 {
			rep.Fail(t, ID, "agent", ac, map[string]any{"trace": tr}, "graph refused (%v) but %d executor event(s) happened, first: %s of %q", runErr, len(tr), tr[0].Kind, tr[0].Step)
		}
		n := 0
		filepath.Walk(h.Data, func(p string, info os.FileInfo, err error) error {
			if err == nil && !info.IsDir() && strings.HasSuffix(p, ".dat") {
				n++
			}
			return nil
		})
		if n > 0 {
			rep.Fail(t, ID, "agent", ac, nil, "graph refused but %d history file(s) were recorded", n)
		}
		if gerr == nil && (st == nil || st.Error == nil) {
			rep.Fail(t, ID, "agent", ac, nil, "the run is refused (%v) but the DAG's status view reports no error", runErr)
		}
	} else {
		if len(tr) == 0 {
			rep.Fail(t, ID, "agent", ac, nil, "a well-formed definition executed nothing (err=%v)", runErr)
		}
		if gerr != nil || (st != nil && st.Error != nil) {
			rep.Fail(t, ID, "agent", ac, nil, "a well-formed definition is shown with a graph error: %v / %v", gerr, st.Error)
		}
	}
	rep.Eval(rep.Hash(ac), []string{"agent:well-formed", "agent:cycle", "agent:self-loop", "agent:dangling"}[ac.Defect%4])
	if rep.WantSample() && bad {
		rep.Sample(map[string]any{"stage": "agent", "defect": ac.Defect, "steps": c.Steps, "runErr": runErr.Error()})
	}
}

func TestAgent(t *testing.T) {
	rapid.Check(t, func(t *rapid.T) {
		c := sim.Gen(t, sim.GenOpts{MaxSteps: 5, Handlers: true})
		c.Stop, c.TimeoutP, c.Dry = nil, 0, false
		for i := range c.Steps {
			c.Steps[i].SetupFail = false
		}
		checkAgent(t, AgentCase{Dag: c, Defect: rapid.IntRange(0, 3).Draw(t, "defect"), At: rapid.IntRange(0, 9).Draw(t, "at")})
	})
}
