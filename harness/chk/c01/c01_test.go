// C01 — a step never starts before everything it depends on has finished.
package c01

import (
	"fmt"
	"encoding/json"
	"testing"

	"github.com/ErdemOzgen/blackdagger/verifharness/rep"
	"github.com/ErdemOzgen/blackdagger/verifharness/retrysim"
	"github.com/ErdemOzgen/blackdagger/verifharness/sim"
	"pgregory.net/rapid"
)

const ID = "C01"

func TestMain(m *testing.M) { rep.Main(m, ID) }

func opts() sim.GenOpts {
	o := sim.GenOpts{MaxSteps: 7, Retries: true, Preconds: true, SetupFails: true, Redirects: true, LookalikeNames: true}
	if rep.Thorough() {
		o.MaxSteps = 12
	}
	return o
}

func check(t rep.Fataler, c sim.Case) {
	r := sim.RunConfirm(c)
	if r.GraphErr != "" {
		rep.Fail(t, ID, "sched", c, r, "valid generated DAG refused: %s", r.GraphErr)
	}
	if r.Hang {
		// termination of unstopped runs is C15's clause; here it only means
		// the final states are not final, so ordering cannot be judged.
		rep.Inconclusive("run did not end: " + r.HangInfo)
		return
	}
	if msg := sim.JudgeC01(&c, r); msg != "" {
		rep.Fail(t, ID, "sched", c, r, "%s", msg)
	}
	key := ""
	if sim.NontrivialC01(&c, r) {
		key = rep.Hash(c.Key() + "|" + r.Order)
	}
	labels := c.ShapeLabels()
	if sim.MaxOverlap(r.Trace) >= 2 {
		labels = append(labels, "overlap>=2")
	}
	rep.Eval(key, labels...)
	if key != "" && rep.WantSample() {
		rep.Sample(map[string]any{"case": c, "order": r.Order, "final": r.Final})
	}
}

// TestExhaustive: small-scope exhaustive tier. Every DAG on <= 2 (quick) / <= 3
// (thorough) steps x every declaration order x continueOn x outcome, under
// FIFO, LIFO and all-at-once completion schedules, sharded by index.
func TestExhaustive(t *testing.T) {
	shard, nsh := rep.EnvInt("VERIF_SHARD", 0), rep.EnvInt("VERIF_NSHARDS", 1)
	maxN := 2
	if rep.Thorough() {
		maxN = 3
	}
	total := 0
	for n := 1; n <= maxN; n++ {
		for sched := 0; sched < 3; sched++ {
			sim.Enumerate(n, sched, func(i int, c sim.Case) {
				total++
				if i%nsh != shard {
					return
				}
				check(t, c)
			})
		}
	}
	if shard == 0 {
		rep.ExhaustiveSpace(fmt.Sprintf("every DAG on 1..%d steps x declaration order x continueOn{none,failure,skipped,both} x outcome{ok,fail,precondition unmet} x 3 canonical schedules (%d cases)", maxN, total))
	}
}

func TestProp(t *testing.T) {
	rapid.Check(t, func(t *rapid.T) { check(t, sim.Gen(t, opts())) })
}

// TestRetryRun: the ordering invariant in a run that retries a recorded run
// ("any run"): re-executed steps wait for re-executed dependencies, kept steps
// count as finished with their recorded result. Only the order clause is judged.
func TestRetryRun(t *testing.T) {
	retrysim.OnlyOrder = true
	rapid.Check(t, func(t *rapid.T) { retrysim.Check(t, ID, "retryrun", retrysim.Gen(t)) })
}

func TestReplay(t *testing.T) {
	p := rep.ReplayPath()
	if p == "" {
		t.Skip("no VERIF_REPLAY")
	}
	cf, err := rep.LoadCase(p)
	if err != nil {
		t.Fatal(err)
	}
	if cf.Sub == "retryrun" {
		retrysim.OnlyOrder = true
		var rc retrysim.Case
		if err := json.Unmarshal(cf.Case, &rc); err != nil {
			t.Fatal(err)
		}
		for i := 0; i < 20; i++ {
			retrysim.Check(t, ID, "retryrun", rc)
		}
		return
	}
	var c sim.Case
	if err := json.Unmarshal(cf.Case, &c); err != nil {
		t.Fatal(err)
	}
	for i := 0; i < rep.EnvInt("VERIF_REPLAY_REPS", 300); i++ {
		check(t, c)
	}
}
