// C16 — at most one run of a DAG file is active at a time.
// The REAL binary: a first `blackdagger start` runs under the sysstop ptrace
// supervisor, which holds the calling thread at the entry of the k-th counted
// system call (files under the home, unix-socket calls, execve) and meanwhile
// runs tools/second: snapshot, second `blackdagger start` (or `retry`) of the
// same file, snapshot. Then the first is resumed and runs to its end.
package c16

import (
	"encoding/json"
	"fmt"
	"os"
	"os/exec"
	"path/filepath"
	"strings"
	"testing"
	"time"

	"github.com/ErdemOzgen/blackdagger/internal/dag"
	dagscheduler "github.com/ErdemOzgen/blackdagger/internal/dag/scheduler"
	"github.com/ErdemOzgen/blackdagger/verifharness/agentkit"
	"github.com/ErdemOzgen/blackdagger/verifharness/crashkit"
	"github.com/ErdemOzgen/blackdagger/verifharness/rep"
	"pgregory.net/rapid"
)

const ID = "C16"

func TestMain(m *testing.M) { rep.Main(m, ID) }

// SigProbeBindRace is the signature of the open known finding: the second
// start is issued after the first has finished its own "already running?"
// probe (its history file exists) and before its status socket is listening.
const SigProbeBindRace = "C16-second-start-between-probe-and-listen"

// Case is one hold point.
type Case struct {
	K     int  `json:"k,omitempty"` // hold point (0: drawn / all)
	Retry bool `json:"retry,omitempty"`
	// FailAccept: the first accept(2) of the first run's status socket fails once
	// with EMFILE (a transient fault); the socket must stay in place — it is the lock
	FailAccept bool `json:"failAccept,omitempty"`
	failAt     int
	Picks      []int `json:"picks,omitempty"`
	// Spawn: hold at the n-th execve of the first run instead of at call K (replay files)
	Spawn int `json:"spawn,omitempty"`
	// Spelling: how the second command line names the same file: 0 as the first
	// did, 1 doubled slash, 2 "/./", 3 "x/../", 4 relative to the working directory
	Spelling int `json:"spelling,omitempty"`
	// OtherTmp: the second runs with a TMPDIR of its own
	OtherTmp bool `json:"otherTmp,omitempty"`
	// Backdate: when the second is issued against an answering first run, every
	// history file is made to look 25 hours old (the DAG keeps history for one
	// day): a start that is refused must not prune the active run's record either
	Backdate bool `json:"backdate,omitempty"`
}

func (w *world) spelled(c *Case) (path, cwd string) {
	dir, base := filepath.Dir(w.file), filepath.Base(w.file)
	switch c.Spelling {
	case 1:
		return dir + "//" + base, w.h.Dir
	case 2:
		return dir + "/./" + base, w.h.Dir
	case 3:
		os.MkdirAll(filepath.Join(dir, "x"), 0o755)
		return dir + "/x/../" + base, w.h.Dir
	case 4:
		rel, err := filepath.Rel(w.h.Dir, w.file)
		if err == nil {
			return rel, w.h.Dir
		}
	}
	return w.file, w.h.Dir
}

type snapT struct {
	HistoryFiles []string `json:"historyFiles"`
	MarkerLines  int      `json:"markerLines"`
	SocketExists bool     `json:"socketExists"`
	SocketAnswer string   `json:"socketAnswer"`
	SocketErr    string   `json:"socketErr"`
}

type reportT struct {
	Before     snapT  `json:"before"`
	After      snapT  `json:"after"`
	SecondExit int    `json:"secondExit"`
	SecondOut  string `json:"secondOut"`
	SecondMS   int64  `json:"secondMS"`
	TimedOut   bool   `json:"timedOut"`
	Backdated  bool   `json:"backdated"`
}

func cliEnv(h *agentkit.Home) []string {
	return append(os.Environ(), "HOME="+h.Dir, "BLACKDAGGER_HOME="+h.Dir, "BLACKDAGGER_DAGS_DIR="+h.DAGs, "BLACKDAGGER_DATA_DIR="+h.Data,
		"BLACKDAGGER_LOG_DIR="+h.Logs, "BLACKDAGGER_SUSPEND_FLAGS_DIR="+h.Flags, "BLACKDAGGER_WORK_DIR="+h.Dir)
}

type world struct {
	h       *agentkit.Home
	file    string
	marker  string
	priorID string
}

func newWorld(t rep.Fataler) *world {
	bin := os.Getenv("VERIF_BIN")
	h, err := agentkit.NewHome(bin)
	if err != nil {
		t.Fatalf("home: %v", err)
	}
	w := &world{h: h, marker: filepath.Join(h.Dir, "marker")}
	step := func(n string, deps string) string {
		s := fmt.Sprintf("  - name: %s\n    command: sh -c \"echo %s >> %s\"\n", n, n, w.marker)
		if deps != "" {
			s += "    depends: [" + deps + "]\n"
		}
		return s
	}
	y := "histRetentionDays: 1\nsteps:\n" + step("s1", "") + step("s2", "s1") + fmt.Sprintf("handlerOn:\n  exit:\n    command: sh -c \"echo onExit >> %s\"\n", w.marker)
	w.file, _ = h.WriteDAG("solo", y)
	// an earlier finished run (the target of `retry`, and prior history)
	cmd := exec.Command(bin, "start", "-q", w.file)
	cmd.Env, cmd.Dir = cliEnv(h), h.Dir
	if out, err := cmd.CombinedOutput(); err != nil {
		h.Cleanup()
		t.Fatalf("prior run failed: %v\n%s", err, out)
	}
	runs := h.NewDataStores().HistoryStore().ReadStatusRecent(w.file, 5)
	if len(runs) != 1 {
		h.Cleanup()
		t.Fatalf("prior run not recorded")
	}
	w.priorID = runs[0].Status.RequestID
	os.Remove(w.marker)
	return w
}

const linesPerRun = 3 // s1, s2, onExit

func (w *world) supervise(c *Case, k int, wantLog bool) (*crashkit.Result, *reportT, error) {
	bin := os.Getenv("VERIF_BIN")
	report := filepath.Join(w.h.Dir, "second.json")
	os.Remove(report)
	mode := "start"
	if c.Retry {
		mode = "retry"
	}
	o := crashkit.Opts{Classes: "fsp", Prefixes: []string{w.h.Dir}, WantLog: wantLog, Env: cliEnv(w.h), Dir: w.h.Dir, Timeout: 90 * time.Second}
	if c.failAt > 0 {
		// by name, not by index: the first accept(2) of the first run fails with EMFILE
		o.FailCall, o.FailNth, o.FailErrno = "accept", 1, 24
	}
	if k > 0 {
		o.HoldAt = k
		sp, cwd := w.spelled(c)
		bd := "keep"
		if c.Backdate {
			bd = "backdate"
		}
		tmp := "-"
		if c.OtherTmp {
			tmp = filepath.Join(w.h.Dir, "othertmp")
		}
		o.HoldCmd = strings.Join([]string{os.Getenv("VERIF_TOOL_SECOND"), report, w.h.Data, w.marker, w.file, bin, mode, w.priorID, sp, cwd, bd, tmp}, " ")
	}
	r, err := crashkit.Run(w.h.Dir, o, bin, "start", "-q", w.file)
	if err != nil {
		return nil, nil, err
	}
	var rp *reportT
	if b, err := os.ReadFile(report); err == nil {
		rp = &reportT{}
		json.Unmarshal(b, rp)
	}
	return r, rp, nil
}

func diffFiles(a, b []string) (added []string) {
	m := map[string]bool{}
	for _, x := range a {
		m[x] = true
	}
	for _, x := range b {
		if !m[x] {
			added = append(added, x)
		}
	}
	return
}

func check(t rep.Fataler, c Case) {
	wd := newWorld(t)
	dry, _, err := wd.supervise(&c, 0, true)
	wd.cleanup()
	if err != nil {
		t.Fatalf("sysstop: %v", err)
	}
	if dry.TimedOut || dry.Exit != 0 {
		rep.Inconclusive(fmt.Sprintf("dry pass failed (exit %d timeout %v)", dry.Exit, dry.TimedOut))
		return
	}
	K := dry.Counted
	listenIdx := 0
	for _, cl := range dry.Calls {
		if cl.Name == "listen" && listenIdx == 0 {
			listenIdx = cl.N
		}
		if c.FailAccept && cl.Name == "accept" && c.failAt == 0 {
			c.failAt = cl.N
		}
	}
	var ks []int
	switch {
	case c.Spawn != 0:
		// the n-th process spawn of the first run (negative: counted from the
		// last): robust against shifts of the absolute call numbers
		var ex []int
		for _, cl := range dry.Calls {
			if cl.Name == "execve" {
				ex = append(ex, cl.N)
			}
		}
		i := c.Spawn - 1
		if c.Spawn < 0 {
			i = len(ex) + c.Spawn
		}
		if i < 0 || i >= len(ex) {
			rep.Inconclusive("no such spawn in the dry run")
			return
		}
		ks = []int{ex[i]}
	case c.K > 0:
		ks = []int{c.K}
	case rep.Thorough():
		for k := 1; k <= K; k++ {
			ks = append(ks, k)
		}
	default:
		seen := map[int]bool{}
		for _, p := range c.Picks {
			if k := p%K + 1; !seen[k] {
				seen[k] = true
				ks = append(ks, k)
			}
		}
	}
	for _, k := range ks {
		if k > K || (c.FailAccept && k <= c.failAt) {
			continue
		}
		call := dry.Calls[k-1]
		w := newWorld(t)
		r, rp, err := w.supervise(&c, k, false)
		func() {
			defer w.cleanup()
			if err != nil {
				t.Fatalf("sysstop: %v", err)
			}
			if r.TimedOut || rp == nil {
				rep.Inconclusive(fmt.Sprintf("held run did not complete (timeout=%v, report=%v)", r.TimedOut, rp != nil))
				return
			}
			cc := c
			cc.K = k
			what := fmt.Sprintf("first start held at the entry of counted call %d of %d (%s %s)", k, K, call.Name, strings.ReplaceAll(call.Detail, wd.h.Dir, ""))
			// outside view at the moment the second start is issued
			newHist := diffFiles([]string{}, rp.Before.HistoryFiles)
			firstActive := len(newHist) >= 2 // the prior run's file + the first start's own file: its probe is done
			firstListening := rp.Before.SocketAnswer != ""
			secondLines := rp.After.MarkerLines - rp.Before.MarkerLines
			secondHist := diffFiles(rp.Before.HistoryFiles, rp.After.HistoryFiles)
			// lines written during the second's life can also come from the first (only the held thread stands still)
			finalLines := 0
			if b, err := os.ReadFile(w.marker); err == nil {
				finalLines = strings.Count(string(b), "\n")
			}
			runs := w.h.NewDataStores().HistoryStore().ReadStatusRecent(w.file, 10)
			mb, _ := os.ReadFile(w.marker)
			obs := map[string]any{"report": rp, "firstExit": r.Exit, "finalMarkerLines": finalLines, "runsRecorded": len(runs), "call": call, "marker": string(mb), "firstOut": r.Stdout + r.Stderr}
			fail := func(format string, a ...any) {
				rep.Fail(t, ID, "hold", cc, obs, "%s: %s", what, fmt.Sprintf(format, a...))
			}
			secondRan := rp.SecondExit == 0
			// what an accepted second contributes: a start executes everything, a
			// retry of the (fully successful) earlier run executes only the exit handler
			secondAdds := linesPerRun
			if c.Retry {
				secondAdds = 1
			}
			// the endpoint is up when it answers, or when it accepts the
			// connection but stays silent (the held thread can block the rest)
			silent := rp.Before.SocketExists && strings.Contains(rp.Before.SocketErr, "timeout")
			phase := "before-probe"
			switch {
			case firstListening || silent:
				phase = "socket-listening"
			case firstActive:
				phase = "probe-done-not-listening"
			}
			if firstListening || silent {
				// the first run is active and its socket is up: the second must be refused cleanly
				if secondRan {
					fail("the second %s exited 0 although the first run's status socket was answering", mode(c))
				}
				if len(secondHist) > 0 && finalLines > linesPerRun {
					fail("the second %s was refused but steps ran twice (%d marker lines) and it recorded a run %v", mode(c), finalLines, secondHist)
				}
				if finalLines != linesPerRun {
					fail("with the second %s refused, the first run must execute each step and the exit handler exactly once; marker has %d lines", mode(c), finalLines)
				}
				if r.Exit != 0 {
					fail("the first run was disturbed: it exited %d", r.Exit)
				}
				if rp.Backdated {
					// every record looked a day old when the second was issued: the prior
					// run may be pruned by anyone, the ACTIVE run's record by no one
					if len(runs) == 0 || runs[0].Status.RequestID == w.priorID {
						fail("the record of the active run is gone after a refused second %s that was issued when the record had not been written to for 25 hours (history now holds %d run(s))", mode(c), len(runs))
					}
					if len(runs) > 2 {
						fail("history has %d runs, expected at most the prior run and the first start's run", len(runs))
					}
				} else if len(runs) != 2 {
					fail("history has %d runs, expected the prior run and the first start's run only", len(runs))
				}
				if len(runs) > 0 && runs[0].Status.Status != dagscheduler.StatusSuccess {
					fail("the first run's final status is %q, expected finished", runs[0].Status.Status)
				}
				// "does not disturb the active run": its socket is still there after the
				// refused attempt (whether it answers while a thread is held is not in
				// the first run's hands)
				if rp.Before.SocketExists && !rp.After.SocketExists && rp.After.MarkerLines < linesPerRun {
					fail("the refused second %s removed the active run's status socket", mode(c))
				}
			} else if firstActive && rp.Before.MarkerLines >= linesPerRun {
				// the first has executed everything and is shutting down (its
				// socket is closed already): the two runs do not execute steps
				// concurrently; nothing to demand beyond consistency
				phase = "first-finished-its-steps"
				if finalLines > linesPerRun+secondAdds {
					fail("%d marker lines after the first run and a second %s", finalLines, mode(c))
				}
			} else if firstActive && rp.Before.MarkerLines > 0 {
				// steps are executing but the status endpoint did not answer the
				// probe (e.g. the held thread is the one serving it): a second
				// start must still not run
				phase = "executing-endpoint-silent"
				if secondRan && finalLines > linesPerRun {
					fail("both starts executed the steps (%d marker lines): the second %s ran while the first was executing its steps (endpoint: %s)", finalLines, mode(c), rp.Before.SocketErr)
				}
			} else if firstActive && listenIdx > 0 && k > listenIdx+1 {
				// the first run has been listening (the hold is past its listen call) and has not
				// executed a step yet, but its socket is not there any more: the lock is gone
				phase = "socket-lost-while-active"
				fail("the first run's status socket does not answer (%s) although the run has been listening and is in progress; second %s exit %d, %d marker lines", rp.Before.SocketErr, mode(c), rp.SecondExit, finalLines)
			} else if firstActive {
				// the window between the first's probe and its listen
				if secondRan && finalLines > linesPerRun {
					msg := fmt.Sprintf("%s: both starts executed the steps (%d marker lines, %d runs recorded): the second %s was issued after the first had passed its own already-running probe and before its socket was listening", what, finalLines, len(runs), mode(c))
					if rep.Known(SigProbeBindRace) {
						rep.KnownHit(SigProbeBindRace)
						rep.Eval("", "matches-open-finding:"+SigProbeBindRace, "phase:"+phase)
						return
					}
					rep.Fail(t, ID, "hold", cc, obs, "%s", msg)
				}
			} else {
				// the first had not yet decided: the two runs are sequential whatever happens
				if finalLines != linesPerRun+secondAdds && finalLines != linesPerRun {
					fail("%d marker lines after two sequential runs (first start: %d lines, second %s: %d)", finalLines, linesPerRun, mode(c), secondAdds)
				}
			}
			_ = secondLines
			key := rep.Hash(map[string]any{"k": k, "retry": c.Retry, "spelling": c.Spelling, "backdate": c.Backdate, "otherTmp": c.OtherTmp})
			faultLabel := "accept-fault:none"
			if c.FailAccept {
				faultLabel = "accept-fault:EMFILE-once"
			}
			lbl := []string{"phase:" + phase, "syscall:" + call.Name, fmt.Sprintf("second-exit:%d", min(rp.SecondExit, 1)), faultLabel, fmt.Sprintf("second-path-spelling:%d", c.Spelling), fmt.Sprintf("second-own-TMPDIR:%v", c.OtherTmp)}
			if rp.Backdated {
				lbl = append(lbl, "active-record-looks-a-day-old")
			}
			rep.Eval(key, lbl...)
			if rep.WantSample() {
				rep.Sample(map[string]any{"heldAt": what, "phase": phase, "secondExit": rp.SecondExit, "finalMarkerLines": finalLines, "runsRecorded": len(runs)})
			}
		}()
	}
}

func mode(c Case) string {
	if c.Retry {
		return "retry"
	}
	return "start"
}

func (w *world) cleanup() {
	if d, err := dag.LoadMetadata(w.file); err == nil {
		os.Remove(d.SockAddr())
	}
	w.h.Cleanup()
}

func TestProp(t *testing.T) {
	for _, v := range []string{"VERIF_BIN", "VERIF_SYSSTOP", "VERIF_TOOL_SECOND"} {
		if os.Getenv(v) == "" {
			t.Fatalf("%s not set", v)
		}
	}
	rapid.Check(t, func(t *rapid.T) {
		c := Case{Retry: rapid.IntRange(0, 2).Draw(t, "retry") == 0, FailAccept: rapid.IntRange(0, 3).Draw(t, "failAccept") == 0,
			Spelling: rapid.SampledFrom([]int{0, 1, 2, 3, 4}).Draw(t, "spelling"), Backdate: rapid.Bool().Draw(t, "backdate"), OtherTmp: rapid.Bool().Draw(t, "otherTmp")}
		for i := 0; i < 2; i++ {
			c.Picks = append(c.Picks, rapid.IntRange(0, 99999).Draw(t, "pick"))
		}
		check(t, c)
	})
}

// TestKnown is the dedicated probe of the open finding: every hold point of
// the start-up phase (the first 40 counted calls).
func TestKnown(t *testing.T) {
	shard, nsh := rep.EnvInt("VERIF_SHARD", 0), rep.EnvInt("VERIF_NSHARDS", 1)
	for k := 1; k <= 32; k++ {
		if k%nsh != shard {
			continue
		}
		check(t, Case{K: k})
	}
	// and a few holds past the listen() with a transient accept(2) failure injected
	for i, k := range []int{18, 22, 26, 30, 34, 40, 46, 52} {
		if i%nsh != shard {
			continue
		}
		check(t, Case{K: k, FailAccept: true, Retry: i%2 == 1})
	}
	// … and holds while the first run executes its steps, with the second issued
	// from an environment whose TMPDIR differs and under another spelling of the path
	for i, k := range []int{20, 24, 28, 32, 36, 42, 48, 54} {
		if (i+8)%nsh != shard {
			continue
		}
		check(t, Case{K: k, Retry: i%2 == 0, OtherTmp: true, Spelling: i % 5})
	}
}

func TestReplay(t *testing.T) {
	p := rep.ReplayPath()
	if p == "" {
		t.Skip("no VERIF_REPLAY")
	}
	cf, err := rep.LoadCase(p)
	if err != nil {
		t.Fatal(err)
	}
	var c Case
	if err := json.Unmarshal(cf.Case, &c); err != nil {
		t.Fatal(err)
	}
	check(t, c)
}
