package c16

import (
	"context"
	"fmt"
	"os"
	"os/exec"
	"path/filepath"
	"strings"
	"testing"
	"time"

	"github.com/ErdemOzgen/blackdagger/internal/dag"
	"github.com/ErdemOzgen/blackdagger/internal/sock"
	"github.com/ErdemOzgen/blackdagger/verifharness/agentkit"
	"github.com/ErdemOzgen/blackdagger/verifharness/rep"
	"github.com/ErdemOzgen/blackdagger/verifharness/sim"
)

// TestStopPhase: a run that has been asked to stop is still active until its
// cancel / exit handlers are done; a start (or retry) of the same file issued
// in that phase must be refused like any other. REAL binaries, no supervisor:
// first `blackdagger start` (a long step, a cancel handler that takes a
// while), `blackdagger stop`, then the second start at generated delays.
func TestStopPhase(t *testing.T) {
	bin := os.Getenv("VERIF_BIN")
	if bin == "" {
		t.Fatal("VERIF_BIN not set")
	}
	shard := rep.EnvInt("VERIF_SHARD", 0)
	delays := []int{50, 300, 900, 1500}
	if !rep.Thorough() {
		delays = []int{delays[shard%len(delays)]}
	}
	for _, delayMS := range delays {
		for _, retry := range []bool{false, true} {
			if !rep.Thorough() && retry != (shard%2 == 1) {
				continue
			}
			stopPhaseOnce(t, bin, delayMS, retry)
		}
	}
}

func stopPhaseOnce(t *testing.T, bin string, delayMS int, retry bool) {
	c := map[string]any{"probe": "stop-phase", "delayMS": delayMS, "retry": retry}
	rep.Begin(ID, "stopphase", c)
	h, err := agentkit.NewHome(bin)
	if err != nil {
		t.Fatal(err)
	}
	defer h.Cleanup()
	marker := filepath.Join(h.Dir, "marker")
	y := fmt.Sprintf("steps:\n  - name: s1\n    command: sh -c \"echo s1 >> %s; exec sleep 30\"\nhandlerOn:\n  cancel:\n    command: sh -c \"sleep 2; echo onCancel >> %s\"\n  exit:\n    command: sh -c \"echo onExit >> %s\"\n", marker, marker, marker)
	file, _ := h.WriteDAG("stopper", y)
	d, _ := dag.LoadMetadata(file)
	defer func() {
		if d != nil {
			os.Remove(d.SockAddr())
		}
	}()
	env := cliEnv(h)
	// an earlier short run as retry target
	priorID := ""
	if retry {
		os.WriteFile(file, []byte(strings.Replace(y, "exec sleep 30", "true", 1)), 0o644)
		cmd := exec.Command(bin, "start", "-q", file)
		cmd.Env, cmd.Dir = env, h.Dir
		cmd.CombinedOutput()
		if runs := h.NewDataStores().HistoryStore().ReadStatusRecent(file, 1); len(runs) == 1 {
			priorID = runs[0].Status.RequestID
		}
		os.WriteFile(file, []byte(y), 0o644)
		os.Remove(marker)
	}
	first := exec.Command(bin, "start", "-q", file)
	first.Env, first.Dir = env, h.Dir
	if err := first.Start(); err != nil {
		t.Fatal(err)
	}
	firstDone := make(chan error, 1)
	go func() { firstDone <- first.Wait() }()
	// wait until the first run is really in progress
	up := false
	deadline := time.Now().Add(15 * time.Second * time.Duration(sim.LoadFactor()))
	for time.Now().Before(deadline) {
		if b, _ := os.ReadFile(marker); strings.Contains(string(b), "s1") {
			if _, err := sock.NewClient(d.SockAddr()).Request("GET", "/status"); err == nil {
				up = true
				break
			}
		}
		time.Sleep(20 * time.Millisecond)
	}
	if !up {
		first.Process.Kill()
		rep.Inconclusive("first run did not come up")
		return
	}
	stop := exec.Command(bin, "stop", file)
	stop.Env, stop.Dir = env, h.Dir
	stop.CombinedOutput()
	time.Sleep(time.Duration(delayMS) * time.Millisecond)
	firstStillThere := true
	select {
	case <-firstDone:
		firstStillThere = false
	default:
	}
	args := []string{"start", "-q", file}
	if retry && priorID != "" {
		args = []string{"retry", "--req=" + priorID, file}
	}
	ctx, cancel := context.WithTimeout(context.Background(), 40*time.Second)
	defer cancel()
	second := exec.CommandContext(ctx, bin, args...)
	second.Env, second.Dir = env, h.Dir
	out, serr := second.CombinedOutput()
	// if the second was (wrongly) accepted it runs the 30 s step: do not wait for it
	if ctx.Err() != nil {
		serr = fmt.Errorf("still running after 40 s (it was accepted and executes the long step)")
	}
	select {
	case <-firstDone:
	case <-time.After(30 * time.Second):
		first.Process.Kill()
	}
	b, _ := os.ReadFile(marker)
	s1 := strings.Count(string(b), "s1\n")
	obs := map[string]any{"marker": string(b), "secondErr": fmt.Sprint(serr), "secondOut": tailS(string(out)), "firstStillThereAtSecond": firstStillThere}
	if firstStillThere {
		accepted := serr == nil || ctx.Err() != nil
		if accepted || s1 > 1 {
			rep.Fail(t, ID, "stopphase", c, obs, "a %s issued %d ms after the stop request, while the first run was still executing its cancel handler, was accepted (s1 executed %d time(s))", map[bool]string{false: "start", true: "retry"}[retry], delayMS, s1)
		}
	}
	rep.Eval(rep.Hash(c), "stop-phase", fmt.Sprintf("stop-phase-first-alive:%v", firstStillThere))
	if rep.WantSample() {
		rep.Sample(map[string]any{"stage": "stopphase", "delayMS": delayMS, "retry": retry, "secondRefused": serr != nil, "marker": string(b)})
	}
}

func tailS(s string) string {
	if len(s) > 300 {
		return s[len(s)-300:]
	}
	return s
}
