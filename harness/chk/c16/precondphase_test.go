package c16

import (
	"fmt"
	"os"
	"os/exec"
	"path/filepath"
	"strings"
	"testing"
	"time"

	"github.com/ErdemOzgen/blackdagger/internal/dag"
	"github.com/ErdemOzgen/blackdagger/verifharness/agentkit"
	"github.com/ErdemOzgen/blackdagger/verifharness/rep"
	"github.com/ErdemOzgen/blackdagger/verifharness/sim"
)

// TestPrecondPhase: the DAG's own preconditions take a while to evaluate (a
// command substitution). A second start of the same file issued while the
// first is still evaluating them comes to its own "already running?" probe
// only after ITS evaluation — by then the first run is listening and executing
// its step, so the second has to be refused. REAL binaries, no supervisor.
func TestPrecondPhase(t *testing.T) {
	bin := os.Getenv("VERIF_BIN")
	if bin == "" {
		t.Fatal("VERIF_BIN not set")
	}
	shard := rep.EnvInt("VERIF_SHARD", 0)
	delays := []int{700, 1200}
	if !rep.Thorough() {
		if shard >= 4 {
			return
		}
		delays = []int{delays[shard%2]}
	}
	for _, d := range delays {
		precondPhaseOnce(t, bin, d, shard%4 >= 2)
	}
}

func precondPhaseOnce(t *testing.T, bin string, delayMS int, retry bool) {
	c := map[string]any{"probe": "precondition-phase", "delayMS": delayMS, "retry": retry}
	rep.Begin(ID, "precondphase", c)
	if sim.LoadFactor() > 1 {
		rep.Inconclusive("machine too busy for a scenario that rests on relative timing of two processes")
		return
	}
	h, err := agentkit.NewHome(bin)
	if err != nil {
		t.Fatal(err)
	}
	defer h.Cleanup()
	marker := filepath.Join(h.Dir, "marker")
	slow := filepath.Join(h.Dir, "slow.sh")
	os.WriteFile(slow, []byte("#!/bin/sh\nsleep 1.5\necho ok\n"), 0o755)
	y := fmt.Sprintf("preconditions:\n  - condition: \"`%s`\"\n    expected: \"ok\"\nsteps:\n  - name: s1\n    command: sh -c \"echo s1 >> %s; exec sleep 3\"\nhandlerOn:\n  exit:\n    command: sh -c \"echo onExit >> %s\"\n", slow, marker, marker)
	file, _ := h.WriteDAG("slowpre", y)
	d, _ := dag.LoadMetadata(file)
	defer func() {
		if d != nil {
			os.Remove(d.SockAddr())
		}
	}()
	env := cliEnv(h)
	priorID := ""
	if retry {
		// an earlier short run as the retry target
		os.WriteFile(file, []byte(strings.Replace(y, "exec sleep 3", "true", 1)), 0o644)
		cmd := exec.Command(bin, "start", "-q", file)
		cmd.Env, cmd.Dir = env, h.Dir
		cmd.CombinedOutput()
		if runs := h.NewDataStores().HistoryStore().ReadStatusRecent(file, 1); len(runs) == 1 {
			priorID = runs[0].Status.RequestID
		}
		os.WriteFile(file, []byte(y), 0o644)
		os.Remove(marker)
		if priorID == "" {
			rep.Inconclusive("prior run for the retry was not recorded")
			return
		}
	}
	first := exec.Command(bin, "start", "-q", file)
	first.Env, first.Dir = env, h.Dir
	if err := first.Start(); err != nil {
		t.Fatal(err)
	}
	firstDone := make(chan error, 1)
	go func() { firstDone <- first.Wait() }()
	time.Sleep(time.Duration(delayMS) * time.Millisecond)
	args := []string{"start", "-q", file}
	if retry {
		args = []string{"retry", "--req=" + priorID, file}
	}
	second := exec.Command(bin, args...)
	second.Env, second.Dir = env, h.Dir
	out2, err2 := second.CombinedOutput()
	select {
	case <-firstDone:
	case <-time.After(60 * time.Second):
		first.Process.Kill()
		rep.Inconclusive("first start did not end within 60 s")
		return
	}
	b, _ := os.ReadFile(marker)
	s1 := strings.Count(string(b), "s1\n")
	exits := strings.Count(string(b), "onExit\n")
	what := "start"
	if retry {
		what = "retry"
	}
	runs := h.NewDataStores().HistoryStore().ReadStatusRecent(file, 10)
	wantRuns := 1
	if retry {
		wantRuns = 2
	}
	obs := map[string]any{"marker": string(b), "secondOut": tail(string(out2)), "secondErr": fmt.Sprint(err2), "runs": len(runs)}
	if s1 != 1 || (err2 == nil && !retry) || len(runs) > wantRuns {
		rep.Fail(t, ID, "precondphase", c, obs, "a %s issued %d ms after the first start, while the first was still evaluating the DAG's preconditions (1.5 s), was not refused: step s1 executed %d time(s), exit handler %d time(s), %d run(s) recorded, second exit error: %v", what, delayMS, s1, exits, len(runs), err2)
	}
	rep.Eval(rep.Hash(c), "precondition-phase", fmt.Sprintf("second-issued-after-ms:%d", delayMS))
}

func tail(s string) string {
	if len(s) > 400 {
		return s[len(s)-400:]
	}
	return s
}
