package c10

import (
	"fmt"
	"testing"
	"time"

	"github.com/ErdemOzgen/blackdagger/internal/dag"
	"github.com/ErdemOzgen/blackdagger/internal/dag/scheduler"
	"github.com/ErdemOzgen/blackdagger/internal/persistence/model"
	"github.com/ErdemOzgen/blackdagger/verifharness/rep"
	"github.com/ErdemOzgen/blackdagger/verifharness/sim"
	"pgregory.net/rapid"
)

// "…always terminates", for every DAG: the set-up of a retry (which steps of
// the recorded run are unfinished or downstream of an unfinished one) on
// LARGE and DENSE graphs — many steps, most of them depending on most of the
// earlier ones, as a generated pipeline with redundant `depends` has. The
// set-up has to return promptly and has to reset exactly the must-rerun
// closure of the recorded vector.

// DenseCase: step i depends on step j<i iff Edges[i][j]; Vector[i] is the recorded state.
type DenseCase struct {
	N      int      `json:"n"`
	Edges  [][]bool `json:"edges"`
	Vector []string `json:"vector"`
}

func genDense(t *rapid.T) DenseCase {
	c := DenseCase{N: rapid.IntRange(12, 26).Draw(t, "n")}
	pct := rapid.SampledFrom([]int{30, 60, 85, 100}).Draw(t, "densityPct")
	allOK := rapid.IntRange(0, 3).Draw(t, "mostlyFinished") > 0
	for i := 0; i < c.N; i++ {
		row := make([]bool, i)
		for j := range row {
			row[j] = rapid.IntRange(1, 100).Draw(t, "e") <= pct
		}
		c.Edges = append(c.Edges, row)
		// a vector a run can leave behind: a step is beyond "not started" /
		// "canceled" only if everything it depends on finished
		ready := true
		for j, e := range row {
			if e && c.Vector[j] != "finished" {
				ready = false
			}
		}
		st := "finished"
		switch {
		case !ready:
			st = rapid.SampledFrom([]string{"not started", "canceled"}).Draw(t, "blockedState")
		case !allOK || rapid.IntRange(0, 9).Draw(t, "bad") == 0:
			st = rapid.SampledFrom([]string{"failed", "canceled", "running", "not started", "finished", "finished"}).Draw(t, "state")
		}
		c.Vector = append(c.Vector, st)
	}
	return c
}

func checkDense(t rep.Fataler, c DenseCase) {
	rep.Begin(ID, "dense", c)
	name := func(i int) string { return fmt.Sprintf("s%02d", i) }
	var data []scheduler.NodeData
	nEdges := 0
	for i := 0; i < c.N; i++ {
		var deps []string
		for j, e := range c.Edges[i] {
			if e {
				deps = append(deps, name(j))
				nEdges++
			}
		}
		st := scheduler.NodeStatusNone
		for _, x := range []scheduler.NodeStatus{scheduler.NodeStatusNone, scheduler.NodeStatusRunning, scheduler.NodeStatusError, scheduler.NodeStatusCancel, scheduler.NodeStatusSuccess, scheduler.NodeStatusSkipped} {
			if x.String() == c.Vector[i] {
				st = x
			}
		}
		data = append(data, scheduler.NodeData{Step: dag.Step{Name: name(i), Command: "true", Depends: deps}, State: scheduler.NodeState{Status: st}})
	}
	// through the persistence encoding, as a retry reads it
	js, err := (&model.Status{Nodes: model.FromNodes(data)}).ToJSON()
	if err != nil {
		t.Fatalf("encode: %v", err)
	}
	st, err := model.StatusFromJSON(string(js))
	if err != nil {
		t.Fatalf("decode: %v", err)
	}
	var nodes []*scheduler.Node
	for _, n := range st.Nodes {
		nodes = append(nodes, n.ToNode())
	}
	type res struct {
		g   *scheduler.ExecutionGraph
		err error
	}
	ch := make(chan res, 1)
	t0 := time.Now()
	go func() {
		g, err := scheduler.NewExecutionGraphForRetry(sim.Quiet, nodes...)
		ch <- res{g, err}
	}()
	bound := 3 * time.Second * time.Duration(sim.LoadFactor())
	var r res
	select {
	case r = <-ch:
	case <-time.After(bound):
		// let it finish (it does, eventually, at these sizes) so that no spinning goroutine is left behind
		select {
		case <-ch:
		case <-time.After(10 * bound):
		}
		rep.Fail(t, ID, "dense", c, map[string]any{"steps": c.N, "edges": nEdges, "waited": time.Since(t0).String()}, "the set-up of the retry of a recorded run of %d steps with %d dependency entries did not return within %v (the same set-up takes microseconds on a sparse graph of that size)", c.N, nEdges, bound)
	}
	if r.err != nil {
		rep.Fail(t, ID, "dense", c, nil, "the retry of a recorded run of a valid DAG was refused: %v", r.err)
	}
	// must-rerun closure, independently
	R := make([]bool, c.N)
	for i := 0; i < c.N; i++ {
		switch c.Vector[i] {
		case "failed", "canceled", "running", "not started":
			R[i] = true
		}
		for j, e := range c.Edges[i] {
			if e && R[j] {
				R[i] = true
			}
		}
	}
	nR := 0
	for _, n := range r.g.Nodes() {
		d := n.Data()
		var i int
		fmt.Sscanf(d.Step.Name, "s%02d", &i)
		got := d.State.Status.String()
		if R[i] {
			nR++
			if got != "not started" {
				rep.Fail(t, ID, "dense", c, nil, "step %s (recorded %q) belongs to the unfinished part of the recorded run but the retry keeps it as %q", d.Step.Name, c.Vector[i], got)
			}
		} else if got != c.Vector[i] {
			rep.Fail(t, ID, "dense", c, nil, "step %s was recorded %q and is not downstream of an unfinished step, but the retry set-up turned it into %q", d.Step.Name, c.Vector[i], got)
		}
	}
	key := ""
	if nR > 0 && nR < c.N && nEdges > c.N {
		key = rep.Hash(c)
	}
	size := "dense:n<=18"
	if c.N > 22 {
		size = "dense:n>22"
	} else if c.N > 18 {
		size = "dense:n19..22"
	}
	rep.Eval(key, size)
	if key != "" && rep.WantSample() {
		rep.Sample(map[string]any{"stage": "dense", "steps": c.N, "edges": nEdges, "vector": c.Vector, "mustRerun": nR, "setupTook": time.Since(t0).String()})
	}
}

func TestDense(t *testing.T) {
	rapid.Check(t, func(t *rapid.T) { checkDense(t, genDense(t)) })
}
