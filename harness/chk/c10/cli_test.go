package c10

import (
	"context"
	"fmt"
	"os"
	"os/exec"
	"path/filepath"
	"sort"
	"strconv"
	"strings"
	"testing"
	"time"

	"github.com/ErdemOzgen/blackdagger/verifharness/agentkit"
	"github.com/ErdemOzgen/blackdagger/verifharness/rep"
	"github.com/ErdemOzgen/blackdagger/verifharness/sim"
	"gopkg.in/yaml.v2"
	"pgregory.net/rapid"
)

// The real commands: `blackdagger start` of a generated DAG of REAL shell
// processes (tools/stepper: each dumps its environment and counts its
// invocations; the steps chosen to fail do so at their first invocation only), the definition file is
// optionally edited, then `blackdagger retry --req=<id>`. Checked on what the
// processes left behind: executed-in-the-retry set == must-rerun closure of
// the recorded run, commands of the edited file never run, the retry is a new
// run, and every process of the retry sees exactly the parameter values the
// processes of the recorded run saw (nothing missing, nothing added).

var cliParamNames = map[string]bool{"A": true, "B": true, "K": true, "T": true, "D": true, "E": true, "OUTV": true, "TAG": true}

// what the always-succeeding first step prints into its output variable
var outvPool = []string{"tok=abc123==", "plain", "two words", "k=v", "", "x==y"}

// bigRecord is set per case (one case at a time per process).
var bigRecord bool

func cliYAML(c *sim.Case, work, stepper, defaults string, changed bool) string {
	// vp_prod always succeeds and captures an output variable; every other step
	// runs after it (and so sees the variable); TAG is an env: entry computed by
	// a command when the definition is loaded
	prod := yaml.MapSlice{{Key: "name", Value: "vp_prod"}, {Key: "command", Value: "cat " + work + "/outv.txt"}, {Key: "output", Value: "OUTV"}}
	if bigRecord {
		// the run's record (one JSON line per status) is larger than 64 KiB
		prod = append(prod, yaml.MapItem{Key: "description", Value: strings.Repeat("d", 70000)})
	}
	steps := []any{prod}
	for _, s := range c.Steps {
		s.Depends = append(append([]string(nil), s.Depends...), "vp_prod")
		k := 0
		if s.FailFirst != 0 {
			k = 1
		}
		// the last argument is quoted and holds blanks: a re-executed step gets
		// the argument list of the recorded step, not a re-split one
		cmd := fmt.Sprintf("%s %s %s %d \"arg with blanks\"", stepper, work, s.Name, k)
		if changed {
			cmd = fmt.Sprintf("%s %s %s %d changed", stepper, work, s.Name, k)
		}
		m := yaml.MapSlice{{Key: "name", Value: s.Name}, {Key: "command", Value: cmd}}
		if len(s.Depends) > 0 {
			m = append(m, yaml.MapItem{Key: "depends", Value: s.Depends})
		}
		if s.ContFail || s.ContSkip {
			m = append(m, yaml.MapItem{Key: "continueOn", Value: map[string]bool{"failure": s.ContFail, "skipped": s.ContSkip}})
		}
		if cs := s.Conds(); len(cs) > 0 {
			var l []any
			for _, ce := range cs {
				l = append(l, map[string]string{"condition": ce[0], "expected": ce[1]})
			}
			m = append(m, yaml.MapItem{Key: "preconditions", Value: l})
		}
		steps = append(steps, m)
	}
	def := yaml.MapSlice{{Key: "env", Value: []any{map[string]string{"TAG": "`cat " + work + "/tag.txt`"}}}, {Key: "params", Value: defaults}, {Key: "steps", Value: steps}}
	b, _ := yaml.Marshal(def)
	return string(b)
}

func paramView(env map[string]string) map[string]string {
	out := map[string]string{}
	for k, v := range env {
		if _, err := strconv.Atoi(k); err == nil || cliParamNames[k] {
			out[k] = v
		}
	}
	return out
}

func fmtView(m map[string]string) string {
	var ks []string
	for k := range m {
		ks = append(ks, k)
	}
	sort.Strings(ks)
	var sb strings.Builder
	for _, k := range ks {
		fmt.Fprintf(&sb, "%s=%q ", k, m[k])
	}
	return strings.TrimSpace(sb.String())
}

func checkCLI(t rep.Fataler, c AgentCase) {
	rep.Begin(ID, "cli", c)
	bin, stepper := os.Getenv("VERIF_BIN"), os.Getenv("VERIF_TOOL_STEPPER")
	h, err := agentkit.NewHome(bin)
	if err != nil {
		t.Fatalf("home: %v", err)
	}
	defer h.Cleanup()
	work := filepath.Join(h.Dir, "work")
	os.MkdirAll(work, 0o755)
	const defaults = "d1 d2 D=default E=other"
	params := paramPool[c.Params%len(paramPool)]
	bigRecord = (c.Params+c.Edit+len(c.Dag.Steps))%3 == 0
	os.WriteFile(filepath.Join(work, "outv.txt"), []byte(outvPool[(c.Params+c.Edit)%len(outvPool)]+"\n"), 0o644)
	os.WriteFile(filepath.Join(work, "tag.txt"), []byte("run-A\n"), 0o644)
	file, err := h.WriteDAG("c10cli", cliYAML(&c.Dag, work, stepper, defaults, false))
	if err != nil {
		t.Fatalf("write: %v", err)
	}
	var env []string
	for _, e := range os.Environ() {
		k := strings.SplitN(e, "=", 2)[0]
		if _, err := strconv.Atoi(k); err == nil || cliParamNames[k] {
			continue
		}
		env = append(env, e)
	}
	env = append(env, "HOME="+h.Dir, "BLACKDAGGER_HOME="+h.Dir, "BLACKDAGGER_DAGS_DIR="+h.DAGs, "BLACKDAGGER_DATA_DIR="+h.Data,
		"BLACKDAGGER_LOG_DIR="+h.Logs, "BLACKDAGGER_SUSPEND_FLAGS_DIR="+h.Flags, "BLACKDAGGER_EXECUTABLE="+bin, "BLACKDAGGER_WORK_DIR="+h.Dir)
	runCLI := func(args ...string) (string, error) {
		ctx, cancel := context.WithTimeout(context.Background(), 90*time.Second)
		defer cancel()
		cmd := exec.CommandContext(ctx, bin, args...)
		cmd.Env, cmd.Dir = env, h.Dir
		out, err := cmd.CombinedOutput()
		if ctx.Err() != nil {
			return string(out), fmt.Errorf("timeout")
		}
		return string(out), err
	}
	count := func(name string) int {
		b, err := os.ReadFile(filepath.Join(work, name+".cnt"))
		if err != nil {
			return 0
		}
		n, _ := strconv.Atoi(strings.TrimSpace(string(b)))
		return n
	}
	view := func(name string) (map[string]string, bool) {
		b, err := os.ReadFile(filepath.Join(work, name+".env"))
		if err != nil {
			return nil, false
		}
		return paramView(agentkit.ParseEnv0(b)), true
	}
	fail := func(obs any, format string, a ...any) { rep.Fail(t, ID, "cli", c, obs, format, a...) }
	tail := func(s string) string {
		if len(s) > 600 {
			return s[len(s)-600:]
		}
		return s
	}

	args := []string{"start", "-q"}
	if params != "" {
		args = append(args, "-p", params)
	}
	out, err := runCLI(append(args, file)...)
	if err != nil && err.Error() == "timeout" {
		rep.Inconclusive("blackdagger start exceeded 90 s")
		return
	}
	hist := h.NewDataStores().HistoryStore().ReadStatusRecent(file, 5)
	if len(hist) != 1 {
		fail(map[string]any{"output": tail(out)}, "`blackdagger start` recorded %d run(s)", len(hist))
	}
	id1 := hist[0].Status.RequestID
	recorded := map[string]string{}
	for _, n := range hist[0].Status.Nodes {
		recorded[n.Step.Name] = n.Status.String()
	}
	// what the processes of the recorded run saw
	var ref map[string]string
	refStep := ""
	count1 := map[string]int{}
	for _, s := range c.Dag.Steps {
		count1[s.Name] = count(s.Name)
		if v, ok := view(s.Name); ok {
			if ref == nil {
				ref, refStep = v, s.Name
			} else if fmtView(v) != fmtView(ref) {
				fail(nil, "within the recorded run started with -p %q step %q saw parameters {%s} and step %q saw {%s}", params, refStep, fmtView(ref), s.Name, fmtView(v))
			}
			os.Remove(filepath.Join(work, s.Name+".env"))
		}
	}
	R := map[string]bool{}
	for _, s := range c.Dag.Steps {
		switch recorded[s.Name] {
		case "failed", "canceled", "running", "not started":
			R[s.Name] = true
		}
	}
	for changed := true; changed; {
		changed = false
		for _, s := range c.Dag.Steps {
			if !R[s.Name] {
				for _, d := range s.Depends {
					if R[d] {
						R[s.Name], changed = true, true
					}
				}
			}
		}
	}
	if len(R) == 0 || ref == nil {
		// nothing failed for real (every chosen step was skipped or cut off): no retry case
		rep.Eval("", "cli:nothing-to-retry")
		return
	}

	// the definition file is edited between the run and its retry
	edited := c.Dag
	edited.Steps = append([]sim.StepSpec(nil), c.Dag.Steps...)
	editNote := "none"
	switch c.Edit {
	case 1:
		editNote = "command of every step changed"
	case 2:
		edited.Steps = append(edited.Steps, sim.StepSpec{Name: "zz", RetryLimit: -1})
		editNote = "step zz added"
	case 3:
		if len(edited.Steps) > 1 {
			last := edited.Steps[len(edited.Steps)-1].Name
			edited.Steps = edited.Steps[:len(edited.Steps)-1]
			for i := range edited.Steps {
				var deps []string
				for _, d := range edited.Steps[i].Depends {
					if d != last {
						deps = append(deps, d)
					}
				}
				edited.Steps[i].Depends = deps
			}
			editNote = "step " + last + " removed"
		}
	case 4:
		for i := range edited.Steps {
			edited.Steps[i].Depends = nil
		}
		editNote = "all dependencies removed"
	}
	os.WriteFile(file, []byte(cliYAML(&edited, work, stepper, defaults, c.Edit == 1)), 0o644)
	// what the env: entry evaluates to has changed by the time of the retry, and
	// so has what the producer would print: the retry runs the RECORDED steps
	// with the recorded variables and the recorded output
	if ms, _ := filepath.Glob(filepath.Join(work, "*.arg*")); true {
		for _, m := range ms {
			os.Remove(m)
		}
	}
	os.WriteFile(filepath.Join(work, "allok"), nil, 0o644) // in the retry every step succeeds (also one that runs for the first time)
	os.WriteFile(filepath.Join(work, "tag.txt"), []byte("run-B\n"), 0o644)
	os.WriteFile(filepath.Join(work, "outv.txt"), []byte("printed-only-if-the-producer-ran-again\n"), 0o644)

	out, err = runCLI("retry", "--req="+id1, file)
	if err != nil && err.Error() == "timeout" {
		rep.Inconclusive("blackdagger retry exceeded 90 s")
		return
	}
	var executed, want []string
	for _, s := range c.Dag.Steps {
		if count(s.Name) > count1[s.Name] {
			executed = append(executed, s.Name)
		}
	}
	if count("zz") > 0 {
		executed = append(executed, "zz")
	}
	for n := range R {
		want = append(want, n)
	}
	sort.Strings(executed)
	sort.Strings(want)
	obs := map[string]any{"recorded": recorded, "output": tail(out), "err": fmt.Sprint(err)}
	if strings.Join(executed, ",") != strings.Join(want, ",") {
		fail(obs, "`blackdagger retry` of the recorded run {%v} (definition edit: %s) executed %v, the unfinished part of the recorded run is %v", recorded, editNote, executed, want)
	}
	if m, _ := filepath.Glob(filepath.Join(work, "*.changed")); len(m) > 0 {
		fail(obs, "`blackdagger retry` ran the command of the edited definition file, not the recorded one (%s)", filepath.Base(m[0]))
	}
	for _, n := range want {
		if _, err := os.Stat(filepath.Join(work, n+".arg with blanks")); err != nil {
			l, _ := filepath.Glob(filepath.Join(work, n+".*"))
			fail(obs, "the re-executed step %q did not receive the argument list of the recorded step (its last argument is \"arg with blanks\"); it left %v", n, l)
		}
		v, ok := view(n)
		if !ok {
			fail(obs, "step %q was re-executed but left no environment dump", n)
		}
		if fmtView(v) != fmtView(ref) {
			fail(obs, "`blackdagger retry` of the run started with -p %q (recorded %q): step %q runs with parameters {%s}, the processes of the recorded run saw {%s}", params, hist[0].Status.Params, n, fmtView(v), fmtView(ref))
		}
	}
	runs := h.NewDataStores().HistoryStore().ReadStatusRecent(file, 10)
	if len(runs) != 2 || runs[0].Status.RequestID == id1 {
		fail(obs, "after a run and its retry the history holds %d run(s) (latest %s, original %s): the retry must be a new run", len(runs), runs[0].Status.RequestID, id1)
	}
	if runs[0].Status.Params != hist[0].Status.Params {
		fail(obs, "the retry records parameters %q, the recorded run had %q", runs[0].Status.Params, hist[0].Status.Params)
	}
	for _, n := range runs[0].Status.Nodes {
		if !R[n.Step.Name] && n.Status.String() != recorded[n.Step.Name] {
			fail(obs, "step %q was recorded %q and kept, but the retry records it as %q", n.Step.Name, recorded[n.Step.Name], n.Status.String())
		}
	}
	key := ""
	if len(R) < len(c.Dag.Steps) || c.Edit != 0 {
		key = rep.Hash(c)
	}
	rep.Eval(key, "cli-edit:"+strings.SplitN(editNote, " ", 2)[0], fmt.Sprintf("cli-params:%d", c.Params%len(paramPool)))
	if key != "" && rep.WantSample() {
		rep.Sample(map[string]any{"stage": "cli", "argv": [][]string{append(args, "<file>"), {"retry", "--req=<id>", "<file>"}}, "recorded": recorded, "edit": editNote, "executedInRetry": executed, "parametersSeen": fmtView(ref)})
	}
}

func TestCLI(t *testing.T) {
	if os.Getenv("VERIF_BIN") == "" || os.Getenv("VERIF_TOOL_STEPPER") == "" {
		t.Fatal("VERIF_BIN / VERIF_TOOL_STEPPER not set")
	}
	rapid.Check(t, func(t *rapid.T) { checkCLI(t, genAgent(t)) })
}
