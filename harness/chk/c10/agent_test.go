package c10

import (
	"context"
	"encoding/json"
	"fmt"
	"os"
	"sort"
	"strings"
	"testing"
	"time"

	"github.com/ErdemOzgen/blackdagger/verifharness/agentkit"
	"github.com/ErdemOzgen/blackdagger/verifharness/rep"
	"github.com/ErdemOzgen/blackdagger/verifharness/sim"
	"pgregory.net/rapid"
)

// Agent level: a real run through the agent (history, socket) on the scripted
// executor, then — optionally after the definition file has been edited — a
// retry as cmd/retry.go does it (recorded status -> reload with the recorded
// parameter string -> agent with RetryTarget). Checked: executed set == the
// must-rerun closure of the RECORDED run (the edited file's steps play no
// part), recorded as a new run next to the old one, parameters of the retry
// equal those of the recorded run.

// AgentCase is one agent-level retry case.
type AgentCase struct {
	Dag    sim.Case `json:"dag"`
	Params int      `json:"params"`
	Edit   int      `json:"edit"` // 0 none, 1 a step's command changed, 2 a step added, 3 a step removed, 4 a dependency removed
}

var paramPool = []string{"", "p1 p2", `A=1 "two words" B="x y"`, `"say \"hi\"" K=v=w`, "é日本 last", "\"tab\there\" T=1"}

func genAgent(t *rapid.T) AgentCase {
	c := sim.Gen(t, sim.GenOpts{MaxSteps: 4, Retries: false, Handlers: false})
	c.MaxActive, c.DelayUS, c.TimeoutP, c.Stop, c.Dry, c.Sched = 0, 0, 0, nil, false, nil
	anyFail := false
	for i := range c.Steps {
		c.Steps[i].SetupFail, c.Steps[i].RetryLimit = false, -1
		if c.Steps[i].FailFirst != 0 {
			c.Steps[i].FailFirst = -1
			anyFail = true
		}
	}
	if !anyFail {
		c.Steps[rapid.IntRange(0, len(c.Steps)-1).Draw(t, "failing")].FailFirst = -1
	}
	return AgentCase{Dag: c, Params: rapid.IntRange(0, len(paramPool)-1).Draw(t, "params"), Edit: rapid.IntRange(0, 4).Draw(t, "edit")}
}

func drive(w *sim.World, done chan error, bound time.Duration) (error, bool) {
	deadline := time.Now().Add(bound)
	for time.Now().Before(deadline) {
		select {
		case err := <-done:
			return err, true
		default:
		}
		for _, a := range w.Blocked() {
			w.Release(a)
		}
		time.Sleep(time.Millisecond)
	}
	w.ReleaseAll()
	return nil, false
}

func checkAgent(t rep.Fataler, c AgentCase) {
	rep.Begin(ID, "agent", c)
	snap := agentkit.EnvSnapshot()
	defer agentkit.RestoreEnv(snap)
	h, err := agentkit.NewHome("/bin/false")
	if err != nil {
		t.Fatalf("home: %v", err)
	}
	defer h.Cleanup()
	params := paramPool[c.Params%len(paramPool)]
	file, _ := h.WriteDAG("c10", sim.YAML(&c.Dag, 0, "d1 D=default"))
	bound := 30 * time.Second * time.Duration(sim.LoadFactor())
	ctx := context.Background()

	// the recorded run
	_, scripts := sim.BuildSteps(&c.Dag)
	w1 := sim.NewWorld(scripts)
	type startRes struct {
		id     string
		params []string
		err    error
	}
	ch := make(chan startRes, 1)
	doneCh := make(chan error, 1)
	go func() {
		id, d, err := h.Start(ctx, file, params)
		var p []string
		if d != nil {
			p = d.Params
		}
		ch <- startRes{id, p, err}
		doneCh <- err
	}()
	if _, ok := drive(w1, doneCh, bound); !ok {
		rep.Inconclusive("the original run did not end within the bound")
		return
	}
	sr := <-ch
	if sr.id == "" {
		rep.Fail(t, ID, "agent", c, nil, "the original run could not be started: %v", sr.err)
	}
	sf, err := h.NewDataStores().HistoryStore().FindByRequestID(file, sr.id)
	if err != nil {
		rep.Fail(t, ID, "agent", c, nil, "the original run is not in the history: %v", err)
	}
	recorded := map[string]string{}
	for _, n := range sf.Status.Nodes {
		recorded[n.Step.Name] = n.Status.String()
	}
	// must-rerun closure over the RECORDED steps
	R := map[string]bool{}
	for _, s := range c.Dag.Steps {
		switch recorded[s.Name] {
		case "failed", "canceled", "running", "not started":
			R[s.Name] = true
		}
	}
	for changed := true; changed; {
		changed = false
		for _, s := range c.Dag.Steps {
			if !R[s.Name] {
				for _, d := range s.Depends {
					if R[d] {
						R[s.Name], changed = true, true
					}
				}
			}
		}
	}
	// the definition file is edited between the run and its retry
	edited := c.Dag
	edited.Steps = append([]sim.StepSpec(nil), c.Dag.Steps...)
	editNote := "none"
	switch c.Edit {
	case 1:
		editNote = "command of every step changed"
	case 2:
		edited.Steps = append(edited.Steps, sim.StepSpec{Name: "zz", RetryLimit: -1})
		editNote = "step zz added"
	case 3:
		if len(edited.Steps) > 1 {
			last := edited.Steps[len(edited.Steps)-1].Name
			edited.Steps = edited.Steps[:len(edited.Steps)-1]
			for i := range edited.Steps {
				var deps []string
				for _, d := range edited.Steps[i].Depends {
					if d != last {
						deps = append(deps, d)
					}
				}
				edited.Steps[i].Depends = deps
			}
			editNote = "step " + last + " removed"
		}
	case 4:
		for i := range edited.Steps {
			edited.Steps[i].Depends = nil
		}
		editNote = "all dependencies removed"
	}
	y := sim.YAML(&edited, 0, "d1 D=default")
	if c.Edit == 1 {
		y = strings.ReplaceAll(y, "command: scripted", "command: changed-after-the-run")
	}
	os.WriteFile(file, []byte(y), 0o644)

	// the retry: every step succeeds now
	sc2 := map[string]sim.Script{}
	for k := range scripts {
		sc2[k] = sim.Script{}
	}
	sc2["zz"] = sim.Script{}
	w2 := sim.NewWorld(sc2)
	agentkit.RestoreEnv(snap)
	type retryRes struct {
		id     string
		params []string
		err    error
	}
	rch := make(chan retryRes, 1)
	done2 := make(chan error, 1)
	go func() {
		id, d, _, err := h.Retry(ctx, file, sr.id)
		var p []string
		if d != nil {
			p = d.Params
		}
		rch <- retryRes{id, p, err}
		done2 <- err
	}()
	if _, ok := drive(w2, done2, bound); !ok {
		rep.Fail(t, ID, "agent", c, map[string]any{"recorded": recorded}, "the retry of the recorded run {%v} did not end within %v (edit: %s)", recorded, bound, editNote)
	}
	rr := <-rch
	if rr.id == "" {
		rep.Fail(t, ID, "agent", c, map[string]any{"recorded": recorded}, "the retry could not be run (edit: %s): %v", editNote, rr.err)
	}
	an := sim.Analyze(w2.Trace())
	var executed, want []string
	for name, st := range an {
		if len(st.Enters) > 0 {
			executed = append(executed, name)
		}
	}
	for n := range R {
		want = append(want, n)
	}
	sort.Strings(executed)
	sort.Strings(want)
	if strings.Join(executed, ",") != strings.Join(want, ",") {
		rep.Fail(t, ID, "agent", c, map[string]any{"recorded": recorded, "trace": w2.Trace()}, "recorded run {%v}, definition edit: %s: the retry executed %v, the unfinished part of the recorded run is %v", recorded, editNote, executed, want)
	}
	// dependency order among the re-executed steps (recorded dependencies)
	res := &sim.Result{Trace: w2.Trace(), Final: map[string]sim.NodeFinal{}}
	runs := h.NewDataStores().HistoryStore().ReadStatusRecent(file, 10)
	if len(runs) != 2 {
		rep.Fail(t, ID, "agent", c, nil, "after a run and its retry the history holds %d run(s), expected 2", len(runs))
	}
	if runs[0].Status.RequestID != rr.id || runs[0].Status.RequestID == sr.id {
		rep.Fail(t, ID, "agent", c, nil, "the retry must be recorded as a new run (latest %s, original %s, retry %s)", runs[0].Status.RequestID, sr.id, rr.id)
	}
	for _, n := range runs[0].Status.Nodes {
		res.Final[n.Step.Name] = sim.NodeFinal{Status: n.Status.String()}
		if !R[n.Step.Name] && n.Status.String() != recorded[n.Step.Name] {
			rep.Fail(t, ID, "agent", c, nil, "step %q was recorded %q and kept, but the retry records it as %q", n.Step.Name, recorded[n.Step.Name], n.Status.String())
		}
	}
	kept := map[string]bool{}
	for _, s := range c.Dag.Steps {
		if !R[s.Name] {
			kept[s.Name] = true
		}
	}
	dagCopy := c.Dag
	if msg := sim.JudgeC01Kept(&dagCopy, res, kept); msg != "" {
		rep.Fail(t, ID, "agent", c, map[string]any{"trace": w2.Trace()}, "dependency order of the recorded run violated during the retry (edit: %s): %s", editNote, msg)
	}
	// parameters of the retry == those of the recorded run
	want0, _ := json.Marshal(sr.params)
	got0, _ := json.Marshal(rr.params)
	if string(want0) != string(got0) {
		rep.Fail(t, ID, "agent", c, nil, "the retry runs with parameters %s, the recorded run had %s (recorded string %q)", got0, want0, sf.Status.Params)
	}
	if runs[0].Status.Params != sf.Status.Params {
		rep.Fail(t, ID, "agent", c, nil, "the retry records parameters %q, the recorded run had %q", runs[0].Status.Params, sf.Status.Params)
	}
	key := ""
	if len(R) > 0 && len(R) < len(c.Dag.Steps) || c.Edit != 0 {
		key = rep.Hash(c)
	}
	rep.Eval(key, "edit:"+strings.SplitN(editNote, " ", 2)[0], fmt.Sprintf("params:%d", c.Params%len(paramPool)))
	if key != "" && rep.WantSample() {
		rep.Sample(map[string]any{"stage": "agent", "steps": c.Dag.Steps, "recorded": recorded, "edit": editNote, "executedInRetry": executed, "params": params})
	}
}

func TestAgent(t *testing.T) {
	rapid.Check(t, func(t *rapid.T) { checkAgent(t, genAgent(t)) })
}
