// C10 — retry re-executes exactly the unfinished part of a recorded run
// (scheduler level; the machinery lives in harness/retrysim, shared with C03).
package c10

import (
	"encoding/json"
	"testing"

	"github.com/ErdemOzgen/blackdagger/verifharness/rep"
	"github.com/ErdemOzgen/blackdagger/verifharness/retrysim"
	"pgregory.net/rapid"
)

const ID = "C10"

func TestMain(m *testing.M) { rep.Main(m, ID) }

func TestProp(t *testing.T) {
	rapid.Check(t, func(t *rapid.T) { retrysim.Check(t, ID, "sched", retrysim.Gen(t)) })
}

func TestReplay(t *testing.T) {
	p := rep.ReplayPath()
	if p == "" {
		t.Skip("no VERIF_REPLAY")
	}
	cf, err := rep.LoadCase(p)
	if err != nil {
		t.Fatal(err)
	}
	if cf.Sub == "agent" {
		var ac AgentCase
		if err := json.Unmarshal(cf.Case, &ac); err != nil {
			t.Fatal(err)
		}
		checkAgent(t, ac)
		return
	}
	if cf.Sub == "dense" {
		var dc DenseCase
		if err := json.Unmarshal(cf.Case, &dc); err != nil {
			t.Fatal(err)
		}
		checkDense(t, dc)
		return
	}
	if cf.Sub == "cli" {
		var ac AgentCase
		if err := json.Unmarshal(cf.Case, &ac); err != nil {
			t.Fatal(err)
		}
		checkCLI(t, ac)
		return
	}
	if cf.Sub != "sched" {
		t.Skip("not a sched case")
	}
	var c retrysim.Case
	if err := json.Unmarshal(cf.Case, &c); err != nil {
		t.Fatal(err)
	}
	reps := rep.EnvInt("VERIF_REPLAY_REPS", 50)
	if c.Vector != nil {
		reps = 5
	}
	for i := 0; i < reps; i++ {
		retrysim.Check(t, ID, "sched", c)
	}
}
