// C04 — run outcome and lifecycle handlers match what happened (scheduler level).
package c04

import (
	"encoding/json"
	"fmt"
	"testing"

	"github.com/ErdemOzgen/blackdagger/verifharness/rep"
	"github.com/ErdemOzgen/blackdagger/verifharness/sim"
	"pgregory.net/rapid"
)

const ID = "C04"

func TestMain(m *testing.M) { rep.Main(m, ID) }

func opts() sim.GenOpts {
	o := sim.GenOpts{MaxSteps: 6, Retries: true, Preconds: true, SetupFails: true, Handlers: true, Stop: true, Redirects: true}
	if rep.Thorough() {
		o.MaxSteps = 10
	}
	return o
}

// judge returns "" or the violation, and the zone label.
func judge(c *sim.Case, r *sim.Result) (string, string) {
	bySteps := sim.ExpectedOutcomeNoStop(c, r)
	stopCall := sim.SeqOf(r.Trace, sim.EvStopCall)
	stopRet := sim.SeqOf(r.Trace, sim.EvStopRet)
	last := sim.LastStepEvent(r.Trace)
	allOK := bySteps == "finished"
	switch {
	case stopCall < 0:
		// zone A: never stopped. "What happened" is read off the executor trace,
		// not off the reported step states alone: a step whose command failed on
		// its last attempt has failed, whatever its node says.
		if c.TimeoutP == 0 {
			for name, st := range sim.Analyze(r.Trace) {
				if sim.IsHandler(name) || len(st.Enters) == 0 {
					continue
				}
				lastAtt := 0
				for att := range st.ExitOf {
					if att > lastAtt {
						lastAtt = att
					}
				}
				if e := st.ExitErr[lastAtt]; lastAtt > 0 && e != "" && r.Status == "finished" {
					return fmt.Sprintf("the command of step %q failed on its last attempt (%d: %s), the step is reported %q and the run succeeded — a run in which a step failed must be reported failed", name, lastAtt, e, r.Final[name].Status), "zoneA:no-stop"
				}
			}
		}
		if c.TimeoutP == 0 && r.Status == "failed" {
			// … and the converse: "failed iff some step failed or could not be set
			// up". A run in which every executed command succeeded on its last
			// attempt and no set-up could fail has not failed.
			cause := false
			an := sim.Analyze(r.Trace)
			for _, s := range c.Steps {
				st := an[s.Name]
				if s.SetupFail {
					cause = true
				}
				if st == nil {
					continue
				}
				lastAtt := 0
				for att := range st.ExitOf {
					if att > lastAtt {
						lastAtt = att
					}
				}
				if lastAtt > 0 && st.ExitErr[lastAtt] != "" {
					cause = true
				}
				if len(st.Enters) > len(st.Exits) {
					cause = true // an attempt without an exit event: unknown
				}
			}
			if !cause {
				culprit := ""
				for n, f := range r.Final {
					if f.Status == "failed" {
						culprit = fmt.Sprintf(" (step %q is reported failed: %s)", n, f.Err)
					}
				}
				return fmt.Sprintf("the run is reported failed although every command that was executed succeeded on its last attempt and no step's set-up was made to fail%s", culprit), "zoneA:no-stop"
			}
		}
		return sim.JudgeHandlers(c, r, []string{bySteps}), "zoneA:no-stop"
	case stopRet >= 0 && (stopRet < last || (c.Stop != nil && c.Stop.Trigger == "before")):
		// zone B: the stop request had returned before the last step event
		want := "canceled"
		if allOK {
			want = "finished"
		}
		// Race-free evidence that the run went on although it had been stopped: a
		// step D was launched only after the stop request had returned (that alone
		// can be a launch the loop had decided on just before), and a dependent S
		// of D was launched as well — S can only have been chosen by a pass of the
		// loop that began after D had ended, long after the request was accepted.
		// Such a run was stopped before completing: canceled, whatever its steps did.
		an := sim.Analyze(r.Trace)
		for _, s := range c.Steps {
			st := an[s.Name]
			if st == nil || len(st.Creates) == 0 {
				continue
			}
			for _, d := range s.Depends {
				if dt := an[d]; dt != nil && len(dt.Creates) > 0 && dt.Creates[0] > stopRet && r.Status != "canceled" {
					return fmt.Sprintf("the stop request had returned (seq %d) before step %q was launched (seq %d); its dependent %q was launched after that (seq %d) and the run is reported %q — a run stopped before completing must be reported canceled", stopRet, d, dt.Creates[0], s.Name, st.Creates[0], r.Status), "zoneB:stop-before-last-step-event"
				}
			}
		}
		return sim.JudgeHandlers(c, r, []string{want}), "zoneB:stop-before-last-step-event"
	default:
		// zone C: stop overlaps or follows the last step event: both readings allowed
		acc := []string{bySteps}
		if !allOK {
			acc = append(acc, "canceled")
		}
		// the label is read after the run, the handler was selected during it:
		// accept any combination of the two allowed outcomes.
		var firstMsg string
		for _, label := range acc {
			if r.Status != label {
				continue
			}
			for _, sel := range acc {
				r2 := *r
				r2.Status = sel
				msg := sim.JudgeHandlers(c, &r2, []string{sel})
				if msg == "" {
					return "", "zoneC:stop-at-or-after-last-step-event"
				}
				if firstMsg == "" {
					firstMsg = msg
				}
			}
		}
		if firstMsg == "" {
			firstMsg = fmt.Sprintf("run reported %q, expected one of %v", r.Status, acc)
		}
		return firstMsg, "zoneC:stop-at-or-after-last-step-event"
	}
}

func check(t rep.Fataler, c sim.Case) {
	r := sim.RunConfirm(c)
	if r.GraphErr != "" {
		rep.Fail(t, ID, "sched", c, r, "valid generated DAG refused: %s", r.GraphErr)
	}
	if r.Hang {
		rep.Inconclusive("run did not end: " + r.HangInfo)
		return
	}
	msg, zone := judge(&c, r)
	if msg != "" {
		rep.Fail(t, ID, "sched", c, r, "%s [%s]", msg, zone)
	}
	key := ""
	failingHandler := false
	for _, h := range c.Handlers {
		if h.Fail {
			failingHandler = true
		}
	}
	stoppedWhileRunning := false
	if sc := sim.SeqOf(r.Trace, sim.EvStopCall); sc >= 0 {
		open := 0
		for _, ev := range r.Trace[:sc] {
			if ev.Kind == sim.EvEnter {
				open++
			} else if ev.Kind == sim.EvExit {
				open--
			}
		}
		stoppedWhileRunning = open > 0
	}
	if (len(c.Handlers) >= 2 && r.Status != "finished") || stoppedWhileRunning || failingHandler {
		key = rep.Hash(c.Key() + "|" + r.Order + "|" + zone)
	}
	labels := []string{zone, "outcome:" + r.Status, fmt.Sprintf("handlers:%d", len(c.Handlers))}
	if stoppedWhileRunning {
		labels = append(labels, "stop-while-running")
	}
	if failingHandler {
		labels = append(labels, "failing-handler")
	}
	rep.Eval(key, labels...)
	if key != "" && rep.WantSample() {
		rep.Sample(map[string]any{"case": c, "order": r.Order, "status": r.Status, "zone": zone})
	}
}

func TestProp(t *testing.T) {
	rapid.Check(t, func(t *rapid.T) { check(t, sim.Gen(t, opts())) })
}

func TestReplay(t *testing.T) {
	p := rep.ReplayPath()
	if p == "" {
		t.Skip("no VERIF_REPLAY")
	}
	cf, err := rep.LoadCase(p)
	if err != nil {
		t.Fatal(err)
	}
	if cf.Sub == "precond-retry" {
		var pc sim.Case
		if err := json.Unmarshal(cf.Case, &pc); err != nil {
			t.Fatal(err)
		}
		checkPrecondRetry(t, pc)
		return
	}
	if cf.Sub == "precond" {
		var pc sim.Case
		if err := json.Unmarshal(cf.Case, &pc); err != nil {
			t.Fatal(err)
		}
		checkPrecond(t, pc, false)
		return
	}
	var c sim.Case
	if err := json.Unmarshal(cf.Case, &c); err != nil {
		t.Fatal(err)
	}
	for i := 0; i < rep.EnvInt("VERIF_REPLAY_REPS", 300); i++ {
		check(t, c)
	}
}
