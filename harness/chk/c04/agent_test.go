package c04

import (
	"context"
	"os"
	"path/filepath"
	"strings"
	"testing"
	"time"

	"github.com/ErdemOzgen/blackdagger/internal/dag"
	"github.com/ErdemOzgen/blackdagger/verifharness/agentkit"
	"github.com/ErdemOzgen/blackdagger/verifharness/rep"
	"github.com/ErdemOzgen/blackdagger/verifharness/sim"
	"pgregory.net/rapid"
)

// Agent level: a DAG whose own (DAG-level) preconditions are not met runs
// nothing at all — no step, no handler — and the start reports an error.
func checkPrecond(t rep.Fataler, c sim.Case, met bool) {
	rep.Begin(ID, "precond", c)
	snap := agentkit.EnvSnapshot()
	defer agentkit.RestoreEnv(snap)
	h, err := agentkit.NewHome("/bin/false")
	if err != nil {
		t.Fatalf("home: %v", err)
	}
	defer h.Cleanup()
	cond := "preconditions:\n  - condition: \"1\"\n    expected: \"1\"\n  - condition: \"0\"\n    expected: \"1\"\n"
	if met {
		cond = "preconditions:\n  - condition: \"1\"\n    expected: \"1\"\n"
	}
	file, _ := h.WriteDAG("pre", cond+sim.YAML(&c, 0, ""))
	d, err := dag.Load("", file, "")
	if err != nil {
		rep.Fail(t, ID, "precond", c, nil, "generated definition rejected: %v", err)
	}
	_, scripts := sim.BuildSteps(&c)
	for k, s := range scripts {
		s.SelfExit = true
		scripts[k] = s
	}
	w := sim.NewWorld(scripts)
	done := make(chan error, 1)
	go func() { done <- h.NewAgent(agentkit.NextReqID(), d, nil).Run(context.Background()) }()
	var runErr error
	select {
	case runErr = <-done:
	case <-time.After(40 * time.Second * time.Duration(sim.LoadFactor())):
		w.ReleaseAll()
		rep.Inconclusive("agent run did not end within the bound")
		return
	}
	tr := w.Trace()
	if !met {
		if runErr == nil {
			rep.Fail(t, ID, "precond", c, nil, "a DAG whose own preconditions are not met was started without an error")
		}
		if len(tr) > 0 {
			rep.Fail(t, ID, "precond", c, map[string]any{"trace": tr}, "DAG preconditions not met, yet %d executor event(s) happened, first: %s of %q", len(tr), tr[0].Kind, tr[0].Step)
		}
		n := 0
		filepath.Walk(h.Data, func(p string, info os.FileInfo, err error) error {
			if err == nil && !info.IsDir() && strings.HasSuffix(p, ".dat") {
				n++
			}
			return nil
		})
		_ = n // whether a refused start leaves a history entry is not stated by the property
	} else if len(tr) == 0 {
		rep.Fail(t, ID, "precond", c, nil, "DAG preconditions are met but nothing was executed (err=%v)", runErr)
	}
	key := rep.Hash("precond|" + c.Key())
	lab := "dag-preconditions:unmet"
	if met {
		lab = "dag-preconditions:met"
	}
	rep.Eval(key, lab)
}

// checkPrecondRetry: the DAG's own preconditions hold when the run is started
// (a step fails, the run is recorded failed) and no longer hold when that run
// is retried: the retry is a run of the DAG like any other — no step and no
// handler may execute, and it reports an error.
func checkPrecondRetry(t rep.Fataler, c sim.Case) {
	rep.Begin(ID, "precond-retry", c)
	snap := agentkit.EnvSnapshot()
	defer agentkit.RestoreEnv(snap)
	h, err := agentkit.NewHome("/bin/false")
	if err != nil {
		t.Fatalf("home: %v", err)
	}
	defer h.Cleanup()
	const gate = "VERIF_C04_GATE"
	cond := "preconditions:\n  - condition: \"$" + gate + "\"\n    expected: \"1\"\n"
	file, _ := h.WriteDAG("preretry", cond+sim.YAML(&c, 0, ""))
	run := func(scripts map[string]sim.Script, f func() error) (error, []sim.Event, bool) {
		for k, s := range scripts {
			s.SelfExit = true
			scripts[k] = s
		}
		w := sim.NewWorld(scripts)
		done := make(chan error, 1)
		go func() { done <- f() }()
		select {
		case err := <-done:
			return err, w.Trace(), true
		case <-time.After(40 * time.Second * time.Duration(sim.LoadFactor())):
			w.ReleaseAll()
			return nil, nil, false
		}
	}
	os.Setenv(gate, "1")
	_, scripts := sim.BuildSteps(&c)
	var id string
	_, tr1, ok := run(scripts, func() error {
		var err error
		id, _, err = h.Start(context.Background(), file, "")
		return err
	})
	if !ok {
		rep.Inconclusive("agent run did not end within the bound")
		return
	}
	if len(tr1) == 0 || id == "" {
		rep.Fail(t, ID, "precond-retry", c, nil, "DAG preconditions are met but nothing was executed")
	}
	sf, err := h.NewDataStores().HistoryStore().FindByRequestID(file, id)
	if err != nil {
		rep.Fail(t, ID, "precond-retry", c, nil, "the first run is not in the history: %v", err)
	}
	if sf.Status.Status.String() != "failed" {
		// nothing to retry in this case (the failing step was skipped or blocked)
		rep.Eval("", "dag-preconditions:retry-leg-not-applicable")
		return
	}
	os.Setenv(gate, "0")
	sc2 := map[string]sim.Script{}
	for k := range scripts {
		sc2[k] = sim.Script{}
	}
	rerr, tr2, ok := run(sc2, func() error {
		_, _, _, err := h.Retry(context.Background(), file, id)
		return err
	})
	if !ok {
		rep.Inconclusive("agent retry did not end within the bound")
		return
	}
	if len(tr2) > 0 {
		rep.Fail(t, ID, "precond-retry", c, map[string]any{"trace": tr2}, "the DAG's preconditions no longer hold when the failed run is retried, yet %d executor event(s) happened in the retry, first: %s of %q", len(tr2), tr2[0].Kind, tr2[0].Step)
	}
	if rerr == nil {
		rep.Fail(t, ID, "precond-retry", c, nil, "a retry of a DAG whose own preconditions are not met went through without an error")
	}
	rep.Eval(rep.Hash("precond-retry|"+c.Key()), "dag-preconditions:unmet-at-retry")
}

func TestPrecond(t *testing.T) {
	rapid.Check(t, func(t *rapid.T) {
		c := sim.Gen(t, sim.GenOpts{MaxSteps: 4, Handlers: true})
		c.Stop, c.TimeoutP, c.Dry = nil, 0, false
		for i := range c.Steps {
			c.Steps[i].SetupFail = false
		}
		if rapid.IntRange(0, 2).Draw(t, "retryLeg") == 0 {
			c.Steps[rapid.IntRange(0, len(c.Steps)-1).Draw(t, "failing")].FailFirst = -1
			for i := range c.Steps {
				c.Steps[i].RetryLimit = -1
			}
			checkPrecondRetry(t, c)
			return
		}
		checkPrecond(t, c, rapid.IntRange(0, 3).Draw(t, "met") == 0)
	})
}
