package c04

import (
	"context"
	"os"
	"path/filepath"
	"strings"
	"testing"
	"time"

	"github.com/ErdemOzgen/blackdagger/internal/dag"
	"github.com/ErdemOzgen/blackdagger/verifharness/agentkit"
	"github.com/ErdemOzgen/blackdagger/verifharness/rep"
	"github.com/ErdemOzgen/blackdagger/verifharness/sim"
	"pgregory.net/rapid"
)

// Agent level: a DAG whose own (DAG-level) preconditions are not met runs
// nothing at all — no step, no handler — and the start reports an error.
func checkPrecond(t rep.Fataler, c sim.Case, met bool) {
	rep.Begin(ID, "precond", c)
	snap := agentkit.EnvSnapshot()
	defer agentkit.RestoreEnv(snap)
	h, err := agentkit.NewHome("/bin/false")
	if err != nil {
		t.Fatalf("home: %v", err)
	}
	defer h.Cleanup()
	cond := "preconditions:\n  - condition: \"1\"\n    expected: \"1\"\n  - condition: \"0\"\n    expected: \"1\"\n"
	if met {
		cond = "preconditions:\n  - condition: \"1\"\n    expected: \"1\"\n"
	}
	file, _ := h.WriteDAG("pre", cond+sim.YAML(&c, 0, ""))
	d, err := dag.Load("", file, "")
	if err != nil {
		rep.Fail(t, ID, "precond", c, nil, "generated definition rejected: %v", err)
	}
	_, scripts := sim.BuildSteps(&c)
	for k, s := range scripts {
		s.SelfExit = true
		scripts[k] = s
	}
	w := sim.NewWorld(scripts)
	done := make(chan error, 1)
	go func() { done <- h.NewAgent(agentkit.NextReqID(), d, nil).Run(context.Background()) }()
	var runErr error
	select {
	case runErr = <-done:
	case <-time.After(40 * time.Second * time.Duration(sim.LoadFactor())):
		w.ReleaseAll()
		rep.Inconclusive("agent run did not end within the bound")
		return
	}
	tr := w.Trace()
	if !met {
		if runErr == nil {
			rep.Fail(t, ID, "precond", c, nil, "a DAG whose own preconditions are not met was started without an error")
		}
		if len(tr) > 0 {
			rep.Fail(t, ID, "precond", c, map[string]any{"trace": tr}, "DAG preconditions not met, yet %d executor event(s) happened, first: %s of %q", len(tr), tr[0].Kind, tr[0].Step)
		}
		n := 0
		filepath.Walk(h.Data, func(p string, info os.FileInfo, err error) error {
			if err == nil && !info.IsDir() && strings.HasSuffix(p, ".dat") {
				n++
			}
			return nil
		})
		_ = n // whether a refused start leaves a history entry is not stated by the property
	} else if len(tr) == 0 {
		rep.Fail(t, ID, "precond", c, nil, "DAG preconditions are met but nothing was executed (err=%v)", runErr)
	}
	key := rep.Hash("precond|" + c.Key())
	lab := "dag-preconditions:unmet"
	if met {
		lab = "dag-preconditions:met"
	}
	rep.Eval(key, lab)
}

func TestPrecond(t *testing.T) {
	rapid.Check(t, func(t *rapid.T) {
		c := sim.Gen(t, sim.GenOpts{MaxSteps: 4, Handlers: true})
		c.Stop, c.TimeoutP, c.Dry = nil, 0, false
		for i := range c.Steps {
			c.Steps[i].SetupFail = false
		}
		checkPrecond(t, c, rapid.IntRange(0, 3).Draw(t, "met") == 0)
	})
}
