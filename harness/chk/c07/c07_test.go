// C07 — recorded history survives a crash at any instant.
// A prior history of completed runs is built with the real store; then a
// scripted operation sequence (open / write* / close-with-compaction / update /
// rename / remove-old) is executed by tools/recorder in its own process under
// the sysstop ptrace supervisor, which SIGKILLs it at the entry of the k-th
// file-system call (plus synthesised torn prefixes of appended writes). The
// surviving directory is then queried with a fresh store and compared with
// what the recorder had acknowledged.
package c07

import (
	"encoding/json"
	"fmt"
	"os"
	"path/filepath"
	"regexp"
	"strconv"
	"strings"
	"testing"
	"time"

	"github.com/ErdemOzgen/blackdagger/internal/dag"
	"github.com/ErdemOzgen/blackdagger/internal/dag/scheduler"
	"github.com/ErdemOzgen/blackdagger/internal/persistence/jsondb"
	"github.com/ErdemOzgen/blackdagger/internal/persistence/model"
	"github.com/ErdemOzgen/blackdagger/verifharness/crashkit"
	"github.com/ErdemOzgen/blackdagger/verifharness/rep"
	"github.com/ErdemOzgen/blackdagger/verifharness/sim"
	"pgregory.net/rapid"
)

const ID = "C07"

// SigRenameSplit is the signature of the open known finding: a history rename
// interrupted between two of its per-file renames leaves the runs split between
// the old and the new name, so neither name shows the complete history.
const SigRenameSplit = "C07-rename-interrupted-splits-history"

func TestMain(m *testing.M) { rep.Main(m, ID) }

// Prior is one completed run recorded before the crashing process starts.
type Prior struct {
	Dag     int  `json:"dag"`
	Writes  int  `json:"writes"`  // 1..3 statuses
	Payload int  `json:"payload"` // payload variant (2,3: lines beyond the 4096-byte buffer)
	Aged    bool `json:"aged"`    // file last written 3 days ago (subject to remove-old 1)
	// Uncompacted: the run's process was killed before Close: its file holds all
	// its status lines and was never compacted (still a recorded run: every
	// write had been acknowledged)
	Uncompacted bool `json:"uncompacted,omitempty"`
}

// ROp is one operation of the crashing process.
type ROp struct {
	Kind    string `json:"kind"` // open write close update rename removeOld
	Dag     int    `json:"dag"`
	Target  int    `json:"target,omitempty"` // update: index into the completed runs of Dag
	Payload int    `json:"payload,omitempty"`
	Days    int    `json:"days,omitempty"`
}

// Case is one crash case.
type Case struct {
	NDags int     `json:"nDags"`
	Prior []Prior `json:"prior,omitempty"`
	Ops   []ROp   `json:"ops"`
	K     int     `json:"k,omitempty"`    // kill point; 0: chosen by the tier (sample / all)
	Torn  int     `json:"torn,omitempty"` // >0: bytes of the killed write that reached the file
	Picks []int   `json:"picks,omitempty"` // quick tier: drawn kill points (mod K)
}

func gen(t *rapid.T) Case {
	c := Case{NDags: rapid.IntRange(1, 2).Draw(t, "nDags")}
	np := rapid.IntRange(0, 3).Draw(t, "nPrior")
	for i := 0; i < np; i++ {
		c.Prior = append(c.Prior, Prior{Dag: rapid.IntRange(0, c.NDags-1).Draw(t, "pdag"), Writes: rapid.IntRange(1, 3).Draw(t, "pwrites"),
			Payload: rapid.IntRange(0, 5).Draw(t, "ppayload"), Aged: rapid.Bool().Draw(t, "aged"), Uncompacted: rapid.IntRange(0, 3).Draw(t, "uncompacted") == 0})
	}
	// a sound operation sequence by construction
	open := -1
	closedOf := func(d int) int {
		n := 0
		for _, p := range c.Prior {
			if p.Dag == d {
				n++
			}
		}
		return n
	}
	n := rapid.IntRange(1, 8).Draw(t, "nOps")
	for i := 0; i < n; i++ {
		d := rapid.IntRange(0, c.NDags-1).Draw(t, "dag")
		kinds := []string{"update", "rename", "removeOld"}
		if open < 0 {
			kinds = append(kinds, "open", "open", "open")
		} else {
			kinds = []string{"write", "write", "write", "close", "close", "update"}
			d = open
		}
		k := rapid.SampledFrom(kinds).Draw(t, "kind")
		op := ROp{Kind: k, Dag: d, Payload: rapid.IntRange(0, 5).Draw(t, "payload")}
		switch k {
		case "open":
			open = d
		case "close":
			open = -1
		case "update":
			if open >= 0 {
				op.Dag = rapid.IntRange(0, c.NDags-1).Draw(t, "udag")
			}
			if closedOf(op.Dag) == 0 {
				continue
			}
			op.Target = rapid.IntRange(0, 5).Draw(t, "target")
		case "removeOld":
			op.Days = rapid.SampledFrom([]int{1, 1, 0}).Draw(t, "days")
		}
		c.Ops = append(c.Ops, op)
		if k == "open" {
			c.Ops = append(c.Ops, ROp{Kind: "write", Dag: d, Payload: rapid.IntRange(0, 5).Draw(t, "payload1")})
		}
	}
	if len(c.Ops) == 0 {
		c.Ops = []ROp{{Kind: "open", Dag: 0}, {Kind: "write", Dag: 0}, {Kind: "close", Dag: 0}}
	}
	for i := 0; i < 12; i++ {
		c.Picks = append(c.Picks, rapid.IntRange(0, 9999).Draw(t, "pick"))
	}
	return c
}

// ---------------------------------------------------------------- world

type mrun struct {
	gone     bool // removed by an earlier remove-old of the script (never addressed again)
	dag      int
	req      string
	start    time.Time
	seqs     []int // sequence numbers of the statuses written, in order
	closed   bool
	aged     bool
	agedNow  bool // build-time tracking of the file's age (an update refreshes it)
	openedBy int // op index of its open (-1: prior)
}

func payload(req string, variant, seq int) *model.Status {
	st := &model.Status{RequestID: req, Name: "c07", PID: model.PID(seq), Status: scheduler.Status(1 + seq%4), StartedAt: "2024-01-01T00:00:00Z", FinishedAt: "-",
		Params: fmt.Sprintf("seq=%d", seq)}
	st.StatusText = st.Status.String()
	switch variant {
	case 2, 3:
		n := 3000 * variant
		st.Nodes = []*model.Node{{Step: dag.Step{Name: "big", Description: strings.Repeat("d", n)}, Log: strings.Repeat("L", n/2), StatusText: "finished", Status: scheduler.NodeStatusSuccess}}
	case 4:
		for i := 0; i < 4; i++ {
			st.Nodes = append(st.Nodes, &model.Node{Step: dag.Step{Name: fmt.Sprintf("s%d", i), Command: "echo", Args: []string{"a b"}}, Status: scheduler.NodeStatus(i % 6), Error: "e\n\"x\""})
		}
	}
	return st
}

var seqRe = regexp.MustCompile(`^seq=(\d+)$`)

func seqOf(st *model.Status) int {
	if m := seqRe.FindStringSubmatch(st.Params); m != nil {
		n, _ := strconv.Atoi(m[1])
		return n
	}
	return -1
}

type scriptOp struct {
	Kind   string          `json:"kind"`
	Dag    string          `json:"dag,omitempty"`
	To     string          `json:"to,omitempty"`
	Req    string          `json:"req,omitempty"`
	TimeMS int64           `json:"timeMS,omitempty"`
	Days   int             `json:"days,omitempty"`
	Status json.RawMessage `json:"status,omitempty"`
}

// plan is the script of the crashing process plus what each op means for the model.
type plan struct {
	dir     string
	data    string
	runs    []*mrun
	script  []scriptOp
	effects []effect
	locs    [][]string // location of each dag after each op index (locs[i+1] = after op i); locs[0] initial
}

type effect struct {
	kind   string
	run    *mrun // open/write/close/update target
	seq    int
	dag    int
	days   int
	toName string
}

// dagRoot: DAG locations are only names for the history store (the files need
// not exist); a fixed root keeps the history directory names (a hash of the
// location) identical across the dry pass and the killed passes of a case.
const dagRoot = "/verif-c07-dags"

var dagNames = []string{"a.yaml", "ab.yaml"}
var renameNames = []string{"r1.yaml", "a_c.yaml", "r 2.yaml", "ab_c.yaml"}

func build(t rep.Fataler, c *Case, now time.Time) *plan {
	dir, err := os.MkdirTemp(sim.ScratchRoot(), "vc07")
	if err != nil {
		t.Fatalf("tmp: %v", err)
	}
	p := &plan{dir: dir, data: filepath.Join(dir, "data")}
	cur := make([]string, c.NDags)
	for i := range cur {
		cur[i] = filepath.Join(dagRoot, dagNames[i])
	}
	seq := 0
	// prior history with the real store, in this process
	for i, pr := range c.Prior {
		db := jsondb.New(p.data, false)
		defer db.VerifStop()
		r := &mrun{dag: pr.Dag, req: fmt.Sprintf("%08x-prior-%d", 0x3000+i*7919, i), start: now.Add(-time.Duration(len(c.Prior)-i) * time.Hour).Truncate(time.Millisecond), closed: true, aged: pr.Aged, agedNow: pr.Aged, openedBy: -1}
		if err := db.Open(cur[pr.Dag], r.start, r.req); err != nil {
			t.Fatalf("prior open: %v", err)
		}
		for w := 0; w < pr.Writes; w++ {
			seq++
			if err := db.Write(payload(r.req, pr.Payload, seq)); err != nil {
				t.Fatalf("prior write: %v", err)
			}
			r.seqs = append(r.seqs, seq)
		}
		if !pr.Uncompacted {
			if err := db.Close(); err != nil {
				t.Fatalf("prior close: %v", err)
			}
		}
		if pr.Aged {
			sf, err := db.FindByRequestID(cur[pr.Dag], r.req)
			if err != nil {
				t.Fatalf("prior find: %v", err)
			}
			mt := now.Add(-72 * time.Hour)
			os.Chtimes(sf.File, mt, mt)
		}
		p.runs = append(p.runs, r)
	}
	p.locs = append(p.locs, append([]string(nil), cur...))
	var open *mrun
	renames := 0
	for i, op := range c.Ops {
		d := op.Dag % c.NDags
		var so scriptOp
		var ef effect
		switch op.Kind {
		case "open":
			open = &mrun{dag: d, req: fmt.Sprintf("%08x-crash-%d", 0x9000+i*104729, i), start: now.Add(time.Duration(i) * time.Millisecond).Truncate(time.Millisecond), openedBy: i}
			p.runs = append(p.runs, open)
			so = scriptOp{Kind: "open", Dag: cur[d], Req: open.req, TimeMS: open.start.UnixMilli()}
			ef = effect{kind: "open", run: open, dag: d}
		case "write":
			seq++
			b, _ := payload(open.req, op.Payload, seq).ToJSON()
			so = scriptOp{Kind: "write", Status: b}
			ef = effect{kind: "write", run: open, seq: seq, dag: open.dag}
		case "close":
			so = scriptOp{Kind: "close"}
			ef = effect{kind: "close", run: open, dag: open.dag}
			open.closed = true
			open = nil
		case "update":
			var cand []*mrun
			for _, r := range p.runs {
				if r.dag == d && r != open && r.closed && !r.gone {
					cand = append(cand, r)
				}
			}
			if len(cand) == 0 {
				so = scriptOp{Kind: "removeOld", Dag: cur[d], Days: -1} // no-op
				ef = effect{kind: "noop"}
				break
			}
			r := cand[op.Target%len(cand)]
			r.agedNow = false
			seq++
			b, _ := payload(r.req, op.Payload, seq).ToJSON()
			so = scriptOp{Kind: "update", Dag: cur[d], Req: r.req, Status: b}
			ef = effect{kind: "update", run: r, seq: seq, dag: d}
		case "rename":
			to := filepath.Join(dagRoot, renameNames[renames%len(renameNames)])
			renames++
			so = scriptOp{Kind: "rename", Dag: cur[d], To: to}
			ef = effect{kind: "rename", dag: d, toName: to}
			cur[d] = to
		case "removeOld":
			so = scriptOp{Kind: "removeOld", Dag: cur[d], Days: op.Days}
			ef = effect{kind: "removeOld", dag: d, days: op.Days}
			for _, r := range p.runs {
				if r.dag == d && r.closed && (op.Days == 0 || r.agedNow) {
					r.gone = true
				}
			}
		}
		p.script = append(p.script, so)
		p.effects = append(p.effects, ef)
		p.locs = append(p.locs, append([]string(nil), cur...))
	}
	return p
}

func (p *plan) writeScript() string {
	b, _ := json.Marshal(map[string]any{"data": p.data, "dags": filepath.Join(p.dir, "dags"), "ops": p.script})
	sp := filepath.Join(p.dir, "script.json")
	os.WriteFile(sp, b, 0o644)
	return sp
}

// expectation for one run after a crash with lastAck acknowledged ops.
type expect struct {
	present  bool  // must be found
	optional bool  // may or may not be found
	allowed  []int // allowed sequence numbers when found
	acked    bool  // has at least one acknowledged status
}

func judge(p *plan, c *Case, lastAck int, what string) string {
	inflight := lastAck + 1
	hasInflight := inflight < len(p.effects)
	ex := map[*mrun]*expect{}
	for _, r := range p.runs {
		if r.openedBy < 0 {
			ex[r] = &expect{present: true, allowed: []int{r.seqs[len(r.seqs)-1]}, acked: true}
		}
	}
	apply := func(ef effect, acked bool) {
		switch ef.kind {
		case "open":
			if acked {
				ex[ef.run] = &expect{optional: true}
			} else {
				ex[ef.run] = &expect{optional: true}
			}
		case "write", "update":
			e := ex[ef.run]
			if e == nil {
				return
			}
			if acked {
				e.present, e.optional, e.acked = true, false, true
				e.allowed = []int{ef.seq}
			} else {
				e.allowed = append(e.allowed, ef.seq)
			}
		case "removeOld":
			for _, r := range p.runs {
				e := ex[r]
				if e == nil || r.dag != ef.dag {
					continue
				}
				if ef.days == 0 || (ef.days > 0 && r.aged && r.openedBy < 0) {
					// removed (acked) or possibly removed (in flight): either way not required any more
					e.present, e.optional = false, true
				}
			}
		}
	}
	for i := 0; i <= lastAck && i < len(p.effects); i++ {
		apply(p.effects[i], true)
		if p.effects[i].kind == "update" {
			// an update refreshes the file's age
			p.effects[i].run.aged = false
		}
	}
	if hasInflight {
		apply(p.effects[inflight], false)
	}
	// where each DAG's history may live now
	locsOf := func(d int) []string {
		l := []string{p.locs[lastAck+1][d]}
		if hasInflight && p.effects[inflight].kind == "rename" && p.effects[inflight].dag == d {
			l = append(l, p.locs[inflight+1][d])
		}
		return l
	}
	db := jsondb.New(p.data, false)
	defer db.VerifStop()
	renameInflight := func(d int) bool {
		return hasInflight && p.effects[inflight].kind == "rename" && p.effects[inflight].dag == d
	}
	type found struct {
		loc string
		seq int
	}
	for d := 0; d < c.NDags; d++ {
		locs := locsOf(d)
		var newest *mrun // newest-started run that must be visible with acknowledged data
		for _, r := range p.runs {
			e := ex[r]
			if e == nil || r.dag != d {
				continue
			}
			var f *found
			for _, loc := range locs {
				var sf *model.StatusFile
				var err error
				func() {
					defer func() {
						if rec := recover(); rec != nil {
							err = fmt.Errorf("PANIC: %v", rec)
						}
					}()
					sf, err = db.FindByRequestID(loc, r.req)
				}()
				if err != nil && strings.HasPrefix(err.Error(), "PANIC") {
					return fmt.Sprintf("%s: FindByRequestID(%s, %s) panicked: %v", what, filepath.Base(loc), r.req, err)
				}
				if err == nil {
					f = &found{loc, seqOf(sf.Status)}
					break
				}
			}
			if f == nil {
				if e.present {
					return fmt.Sprintf("%s: run %s (last acknowledged status seq %v) is not returned by FindByRequestID under %v", what, r.req, e.allowed[:1], baseNames(locs))
				}
				continue
			}
			ok := false
			for _, s := range e.allowed {
				if s == f.seq {
					ok = true
				}
			}
			if !ok && (e.present || len(e.allowed) > 0) {
				return fmt.Sprintf("%s: run %s is returned with status seq %d; acknowledged / in-flight statuses allow %v", what, r.req, f.seq, e.allowed)
			}
			if e.present && e.acked && (newest == nil || r.start.After(newest.start)) {
				newest = r
			}
		}
		if newest == nil {
			continue
		}
		if renameInflight(d) {
			// A rename moves the files one by one. Under EACH name the queries
			// must not fail or show foreign runs; whether the two names TOGETHER
			// still show everything is the strict reading, whose failure is the
			// recorded open finding (the history is split between the names).
			union := map[string]int{}
			for _, loc := range locs {
				for _, sf := range db.ReadStatusRecent(loc, 1000) {
					union[sf.Status.RequestID] = seqOf(sf.Status)
				}
			}
			for _, r := range p.runs {
				e := ex[r]
				if e == nil || r.dag != d || !e.present || !e.acked {
					continue
				}
				if _, ok := union[r.req]; !ok {
					return fmt.Sprintf("%s: run %s with acknowledged data is in the recent history of neither %v", what, r.req, baseNames(locs))
				}
			}
			split := ""
			for _, loc := range locs {
				st, err := db.ReadStatusToday(loc)
				recent := db.ReadStatusRecent(loc, 1000)
				if err != nil && len(recent) > 0 {
					return fmt.Sprintf("%s: latest status of %s fails (%v) although it has %d readable run(s)", what, filepath.Base(loc), err, len(recent))
				}
				if err == nil && st.RequestID != newest.req && loc == locs[len(locs)-1] {
					split = fmt.Sprintf("%s: after the interrupted rename the history is split: under the new name %s the latest status is run %s and %d run(s) are listed, the newest acknowledged run %s is still under the old name", what, filepath.Base(loc), st.RequestID, len(recent), newest.req)
				}
			}
			if split != "" {
				return "KNOWN:" + SigRenameSplit + ":" + split
			}
			continue
		}
		// latest status and recent history must answer, without error, and not hide acknowledged data
		var lastErr error
		answered := false
		for _, loc := range locs {
			var st *model.Status
			var err error
			func() {
				defer func() {
					if rec := recover(); rec != nil {
						err = fmt.Errorf("PANIC: %v", rec)
					}
				}()
				st, err = db.ReadStatusToday(loc)
			}()
			if err != nil {
				lastErr = err
				continue
			}
			answered = true
			var who *mrun
			for _, r := range p.runs {
				if r.req == st.RequestID {
					who = r
				}
			}
			if who == nil || who.dag != d {
				return fmt.Sprintf("%s: latest status of %s is run %s which does not belong to it", what, filepath.Base(loc), st.RequestID)
			}
			if who != newest && !who.start.After(newest.start) {
				return fmt.Sprintf("%s: latest status of %s is run %s (started %s) although run %s started later (%s) and has acknowledged data", what, filepath.Base(loc), who.req, who.start.Format("15:04:05.000"), newest.req, newest.start.Format("15:04:05.000"))
			}
			okSeq := false
			for _, s := range ex[who].allowed {
				if s == seqOf(st) {
					okSeq = true
				}
			}
			if !okSeq {
				return fmt.Sprintf("%s: latest status of %s is run %s with status seq %d; allowed %v", what, filepath.Base(loc), who.req, seqOf(st), ex[who].allowed)
			}
			recent := db.ReadStatusRecent(loc, 1000)
			// a bound does not hide what the unbounded listing shows: asking for as
			// many runs as there are (or for the newest one) returns those runs,
			// whatever unreadable leftovers of the crash lie in between
			for _, n := range []int{len(recent), 1} {
				if n == 0 || n > len(recent) {
					continue
				}
				got := db.ReadStatusRecent(loc, n)
				if len(got) != n {
					return fmt.Sprintf("%s: the recent history of %s lists %d run(s), but asked for the %d newest it returns %d", what, filepath.Base(loc), len(recent), n, len(got))
				}
				for i := range got {
					if got[i].Status.RequestID != recent[i].Status.RequestID {
						return fmt.Sprintf("%s: the %d newest runs of %s differ from the head of the full listing at position %d (%s vs %s)", what, n, filepath.Base(loc), i, got[i].Status.RequestID, recent[i].Status.RequestID)
					}
				}
			}
			have := map[string]int{}
			for _, sf := range recent {
				have[sf.Status.RequestID] = seqOf(sf.Status)
			}
			for _, r := range p.runs {
				e := ex[r]
				if e == nil || r.dag != d || !e.present || !e.acked {
					continue
				}
				s, ok := have[r.req]
				if !ok && len(locs) == 1 {
					return fmt.Sprintf("%s: recent history of %s does not contain run %s which has acknowledged data", what, filepath.Base(loc), r.req)
				}
				if ok {
					good := false
					for _, a := range e.allowed {
						if a == s {
							good = true
						}
					}
					if !good {
						return fmt.Sprintf("%s: recent history of %s shows run %s at status seq %d; allowed %v", what, filepath.Base(loc), r.req, s, e.allowed)
					}
				}
			}
		}
		if !answered {
			return fmt.Sprintf("%s: the latest-status query fails (%v) although run %s has acknowledged data", what, lastErr, newest.req)
		}
	}
	return ""
}

func baseNames(l []string) []string {
	var o []string
	for _, x := range l {
		o = append(o, filepath.Base(x))
	}
	return o
}

func superviseOnce(t rep.Fataler, c *Case, k int, wantLog bool) (*plan, *crashkit.Result) {
	cc := *c
	p := build(t, &cc, baseTime)
	sp := p.writeScript()
	o := crashkit.Opts{Classes: "f", Prefixes: []string{p.data}, WantLog: wantLog, Env: os.Environ(), KillAt: k}
	r, err := crashkit.Run(p.dir, o, os.Getenv("VERIF_TOOL_RECORDER"), sp)
	if err != nil {
		os.RemoveAll(p.dir)
		t.Fatalf("sysstop: %v", err)
	}
	return p, r
}

var writeRe = regexp.MustCompile(`^(\S.*) len=(\d+)$`)

// baseTime: all runs of one case are built with the same clock reading, so that
// file names are identical across the dry pass and the killed passes.
var baseTime time.Time

func check(t rep.Fataler, c Case) {
	baseTime = time.Now().Truncate(time.Second)
	pd, dry := superviseOnce(t, &c, 0, true)
	os.RemoveAll(pd.dir)
	if dry.TimedOut {
		rep.Inconclusive("dry pass timed out")
		return
	}
	if last, errs := crashkit.Acks(dry.Stdout); last != len(pd.script)-1 || len(errs) > 0 {
		rep.Fail(t, ID, "crash", c, map[string]any{"stdout": dry.Stdout, "stderr": dry.Stderr}, "without any crash the scripted operations did not all succeed: last ack %d of %d, errors %v", last, len(pd.script)-1, errs)
	}
	K := dry.Counted
	if K == 0 {
		rep.Eval("", "no-file-system-call")
		return
	}
	var ks []int
	switch {
	case c.K > 0:
		ks = []int{c.K}
	case rep.Thorough():
		for k := 1; k <= K; k++ {
			ks = append(ks, k)
		}
	default:
		seen := map[int]bool{}
		for _, pk := range c.Picks {
			k := pk%K + 1
			if !seen[k] {
				seen[k] = true
				ks = append(ks, k)
			}
		}
	}
	for _, k := range ks {
		if k > K {
			continue
		}
		call := dry.Calls[k-1]
		p, r := superviseOnce(t, &c, k, false)
		if r.TimedOut {
			os.RemoveAll(p.dir)
			rep.Inconclusive("killed run timed out")
			continue
		}
		lastAck, _ := crashkit.Acks(r.Stdout)
		cc := c
		cc.K = k
		inflightKind := "none"
		if lastAck+1 < len(p.effects) {
			inflightKind = p.effects[lastAck+1].kind
		}
		what := fmt.Sprintf("killed at the entry of file-system call %d of %d (%s %s) during op %d (%s), %d op(s) acknowledged", k, K, call.Name, shorten(call.Detail, pd.dir), lastAck+1, inflightKind, lastAck+1)
		if msg := judge(p, &cc, lastAck, what); msg != "" {
			if known(msg) {
				os.RemoveAll(p.dir)
				rep.Eval("", "matches-open-finding:"+SigRenameSplit)
				continue
			}
			os.RemoveAll(p.dir)
			rep.Fail(t, ID, "crash", cc, map[string]any{"call": call, "lastAck": lastAck, "script": kinds(p)}, "%s", strings.TrimPrefix(msg, "KNOWN:"+SigRenameSplit+":"))
		}
		labels := []string{"crash-in:" + inflightKind, "syscall:" + call.Name}
		if strings.Contains(call.Detail, "_c.dat") {
			labels = append(labels, "crash-inside-compaction")
		}
		nt := len(c.Prior) > 0 && (inflightKind == "close" || inflightKind == "update" || inflightKind == "rename" || inflightKind == "removeOld" || (inflightKind == "write" && call.Name == "write"))
		// torn write: the killed call is an append; synthesise the states in which only a prefix reached the file
		if m := writeRe.FindStringSubmatch(call.Detail); call.Name == "write" && m != nil {
			file := strings.Replace(m[1], pd.dir, p.dir, 1)
			L, _ := strconv.Atoi(m[2])
			_, err := os.Stat(file)
			if err == nil && L > 1 {
				var prefixes []int
				if c.Torn > 0 {
					prefixes = []int{c.Torn}
				} else if L <= 64 {
					for x := 1; x < L; x++ {
						prefixes = append(prefixes, x)
					}
				} else {
					prefixes = []int{1, 2, L / 3, L / 2, L - 2, L - 1}
				}
				// the bytes of the killed write and where they go: compare the file as the
				// kill left it with the file of a run killed one call later. An append
				// grows the file; a write in place changes bytes from some offset on.
				p2, r2 := superviseOnce(t, &c, k+1, false)
				file2 := strings.Replace(m[1], pd.dir, p2.dir, 1)
				full, err2 := os.ReadFile(file2)
				orig, _ := os.ReadFile(file)
				if !r2.TimedOut && err2 == nil {
					off := 0
					for off < len(orig) && off < len(full) && orig[off] == full[off] {
						off++
					}
					if off == len(orig) && len(full) == len(orig)+L {
						// plain append
					} else if off+L <= len(full) {
						rep.Label("torn-synthesis:write-in-place")
					} else {
						rep.Label("torn-synthesis-skipped")
						off = -1
					}
					for _, x := range prefixes {
						if off < 0 || x <= 0 || x >= L || off+x > len(full) {
							continue
						}
						torn := append([]byte(nil), orig...)
						if off+x > len(torn) {
							torn = append(torn[:off], full[off:off+x]...)
						} else {
							copy(torn[off:], full[off:off+x])
						}
						os.WriteFile(file, torn, 0o644)
						cc.Torn = x
						if msg := judge(p, &cc, lastAck, fmt.Sprintf("%s, %d of its %d bytes written", what, x, L)); msg != "" && !known(msg) {
							os.RemoveAll(p.dir)
							os.RemoveAll(p2.dir)
							rep.Fail(t, ID, "crash", cc, map[string]any{"call": call, "lastAck": lastAck, "script": kinds(p)}, "%s", msg)
						}
						rep.EvalCounted(true, "torn-write-prefix")
					}
					os.WriteFile(file, orig, 0o644)
				}
				os.RemoveAll(p2.dir)
				cc.Torn = 0
			}
		}
		os.RemoveAll(p.dir)
		key := ""
		if nt {
			key = rep.Hash(map[string]any{"c": c.Prior, "o": c.Ops, "k": k})
		}
		rep.Eval(key, labels...)
		if key != "" && rep.WantSample() {
			rep.Sample(map[string]any{"prior": c.Prior, "ops": kinds(p), "killedAt": what})
		}
	}
}

// known tells whether the message is the open known finding (and counts the hit).
func known(msg string) bool {
	if strings.HasPrefix(msg, "KNOWN:"+SigRenameSplit+":") && rep.Known(SigRenameSplit) {
		rep.KnownHit(SigRenameSplit)
		return true
	}
	return false
}

// TestKnown is the dedicated probe of the open finding: two completed runs,
// one rename, every kill point.
func TestKnown(t *testing.T) {
	if !rep.Known(SigRenameSplit) {
		t.Skip("finding not open")
	}
	c := Case{NDags: 1, Prior: []Prior{{Dag: 0, Writes: 1}, {Dag: 0, Writes: 2}}, Ops: []ROp{{Kind: "rename", Dag: 0}}}
	for k := 1; k <= 8; k++ {
		c.K = k
		check(t, c)
	}
}

func kinds(p *plan) []string {
	var k []string
	for _, s := range p.script {
		k = append(k, s.Kind)
	}
	return k
}

func shorten(s, dir string) string {
	return strings.ReplaceAll(s, dir, "")
}

func TestProp(t *testing.T) {
	if crashkit.Sysstop() == "" || os.Getenv("VERIF_TOOL_RECORDER") == "" {
		t.Fatal("VERIF_SYSSTOP / VERIF_TOOL_RECORDER not set")
	}
	rapid.Check(t, func(t *rapid.T) { check(t, gen(t)) })
}

func TestReplay(t *testing.T) {
	p := rep.ReplayPath()
	if p == "" {
		t.Skip("no VERIF_REPLAY")
	}
	cf, err := rep.LoadCase(p)
	if err != nil {
		t.Fatal(err)
	}
	var c Case
	if err := json.Unmarshal(cf.Case, &c); err != nil {
		t.Fatal(err)
	}
	check(t, c)
}
