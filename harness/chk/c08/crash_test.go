package c08

import (
	"encoding/json"
	"fmt"
	"os"
	"os/exec"
	"path/filepath"
	"strings"
	"sync"
	"testing"
	"time"

	"github.com/ErdemOzgen/blackdagger/internal/client"
	"github.com/ErdemOzgen/blackdagger/internal/config"
	"github.com/ErdemOzgen/blackdagger/internal/dag"
	dagscheduler "github.com/ErdemOzgen/blackdagger/internal/dag/scheduler"
	"github.com/ErdemOzgen/blackdagger/internal/scheduler"
	"github.com/ErdemOzgen/blackdagger/verifharness/agentkit"
	"github.com/ErdemOzgen/blackdagger/verifharness/crashkit"
	"github.com/ErdemOzgen/blackdagger/verifharness/rep"
	"github.com/ErdemOzgen/blackdagger/verifharness/sim"
	"pgregory.net/rapid"
)

// Crash part: the REAL binary (`blackdagger start`) runs a small DAG whose
// steps and handlers leave marker files, under the sysstop supervisor, which
// SIGKILLs the whole process tree at the entry of the k-th counted system call
// (file operations under the home, unix-socket calls, execve). Afterwards, from
// a fresh process: the status query must answer, the DAG must be reported
// neither running nor — unless everything really ran — succeeded, it must be
// startable again, and the scheduler daemon must still start it.

// CrashCase is one kill point of one DAG shape.
type CrashCase struct {
	Shape int  `json:"shape"`           // 0: chain of 2, 1: chain of 3, 2: two parallel + join
	Prior bool `json:"prior,omitempty"` // an earlier successful run exists
	K     int  `json:"k,omitempty"`     // kill point (0: drawn / all)
	Picks []int `json:"picks,omitempty"`
	Tail  int   `json:"tail,omitempty"` // >0: the Tail-th call from the end of the run (1 = the last one)
}

func crashDef(shape int, work string) (string, []string) {
	step := func(n string, deps ...string) string {
		s := fmt.Sprintf("  - name: %s\n    command: touch %s\n", n, filepath.Join(work, n+".ran"))
		if len(deps) > 0 {
			s += "    depends: [" + strings.Join(deps, ", ") + "]\n"
		}
		return s
	}
	var names []string
	y := "schedule: \"* * * * *\"\nsteps:\n"
	switch shape {
	case 0:
		y += step("s1") + step("s2", "s1")
		names = []string{"s1", "s2"}
	case 1:
		y += step("s1") + step("s2", "s1") + step("s3", "s2")
		names = []string{"s1", "s2", "s3"}
	default:
		y += step("s1") + step("s2") + step("s3", "s1", "s2")
		names = []string{"s1", "s2", "s3"}
	}
	y += fmt.Sprintf("handlerOn:\n  success:\n    command: touch %s\n  exit:\n    command: touch %s\n", filepath.Join(work, "onSuccess.ran"), filepath.Join(work, "onExit.ran"))
	return y, append(names, "onSuccess", "onExit")
}

type recClient struct {
	client.Client
	mu     sync.Mutex
	starts int
}

func (r *recClient) Start(d *dag.DAG, o client.StartOptions) error {
	r.mu.Lock()
	r.starts++
	r.mu.Unlock()
	return nil
}

func cliEnv(h *agentkit.Home) []string {
	return append(os.Environ(), "HOME="+h.Dir, "BLACKDAGGER_HOME="+h.Dir, "BLACKDAGGER_DAGS_DIR="+h.DAGs, "BLACKDAGGER_DATA_DIR="+h.Data,
		"BLACKDAGGER_LOG_DIR="+h.Logs, "BLACKDAGGER_SUSPEND_FLAGS_DIR="+h.Flags, "BLACKDAGGER_WORK_DIR="+h.Dir)
}

func crashRun(t rep.Fataler, c *CrashCase, k int, wantLog bool) (*agentkit.Home, *crashkit.Result, string, []string) {
	bin := os.Getenv("VERIF_BIN")
	h, err := agentkit.NewHome(bin)
	if err != nil {
		t.Fatalf("home: %v", err)
	}
	work := filepath.Join(h.Dir, "work")
	os.MkdirAll(work, 0o755)
	y, markers := crashDef(c.Shape, work)
	file, _ := h.WriteDAG("victim", y)
	if c.Prior {
		cmd := exec.Command(bin, "start", "-q", file)
		cmd.Env, cmd.Dir = cliEnv(h), h.Dir
		if out, err := cmd.CombinedOutput(); err != nil {
			h.Cleanup()
			t.Fatalf("prior run failed: %v\n%s", err, out)
		}
		for _, m := range markers {
			os.Remove(filepath.Join(work, m+".ran"))
		}
	}
	o := crashkit.Opts{Classes: "fsp", Prefixes: []string{h.Dir}, KillAt: k, WantLog: wantLog, Env: cliEnv(h), Dir: h.Dir, Timeout: 60 * time.Second}
	r, err := crashkit.Run(h.Dir, o, bin, "start", "-q", file)
	if err != nil {
		h.Cleanup()
		t.Fatalf("sysstop: %v", err)
	}
	return h, r, file, markers
}

func checkCrash(t rep.Fataler, c CrashCase) {
	hd, dry, _, _ := crashRun(t, &c, 0, true)
	hd.Cleanup()
	if dry.TimedOut || dry.Exit != 0 {
		rep.Inconclusive(fmt.Sprintf("dry pass of the traced run failed (exit %d, timeout %v)", dry.Exit, dry.TimedOut))
		return
	}
	K := dry.Counted
	var ks []int
	switch {
	case c.K > 0:
		ks = []int{c.K}
	case c.Tail > 0:
		if K-c.Tail+1 >= 1 {
			ks = []int{K - c.Tail + 1}
		}
	case rep.Thorough():
		for k := 1; k <= K; k++ {
			ks = append(ks, k)
		}
	default:
		seen := map[int]bool{}
		for i, p := range c.Picks {
			// of five kill points per run two come from its shutdown (final status,
			// compaction, socket removal: the last 20 counted calls), one from its
			// start-up (the first 16), two from anywhere
			k := p%K + 1
			switch i % 5 {
			case 0, 1:
				k = K - p%min(20, K)
			case 2:
				k = p%min(16, K) + 1
			}
			if !seen[k] {
				seen[k] = true
				ks = append(ks, k)
			}
		}
	}
	for _, k := range ks {
		if k > K {
			continue
		}
		call := dry.Calls[k-1]
		h, r, file, markers := crashRun(t, &c, k, true)
		func() {
			defer h.Cleanup()
			defer func() {
				if d, err := dag.Load("", file, ""); err == nil {
					os.Remove(d.SockAddr())
				}
			}()
			if r.TimedOut {
				rep.Inconclusive("killed run timed out")
				return
			}
			cc := c
			cc.K = k
			what := fmt.Sprintf("`blackdagger start` killed at the entry of counted call %d of %d (%s %s)", k, K, call.Name, strings.ReplaceAll(call.Detail, hd.Dir, ""))
			work := filepath.Join(h.Dir, "work")
			ran := map[string]bool{}
			all := true
			for _, m := range markers {
				if _, err := os.Stat(filepath.Join(work, m+".ran")); err == nil {
					ran[m] = true
				} else {
					all = false
				}
			}
			d, err := dag.Load("", file, "")
			if err != nil {
				t.Fatalf("load: %v", err)
			}
			cli := client.New(h.NewDataStores(), os.Getenv("VERIF_BIN"), h.Dir, sim.Quiet)
			st, err := cli.GetLatestStatus(d)
			fail := func(format string, a ...any) {
				rep.Fail(t, ID, "crash", cc, map[string]any{"call": call, "ran": ran}, "%s: %s", what, fmt.Sprintf(format, a...))
			}
			if err != nil {
				fail("afterwards the status query fails: %v (the daemon's job.Start fails the same way: the DAG is stuck)", err)
			}
			if st.Status == dagscheduler.StatusRunning {
				fail("afterwards the DAG is still reported running although its process is gone")
			}
			if st.Status == dagscheduler.StatusSuccess && !all && !(c.Prior && priorAnswer(st, h, file)) {
				fail("afterwards the DAG is reported %q although the run was cut short: of %v only %v ran", st.Status, markers, keysOf(ran))
			}
			// a run that has been on record does not vanish: once one of its statuses
			// had been written in full (a completed write to its history file comes
			// before the kill point), the history shows this run next to the earlier one
			// (read off the killed run's OWN call log — the threads of the real
			// binary do not reach their calls in the same order in every run; the
			// last logged call is the one at whose entry the process was killed)
			recorded := false
			done := r.Calls
			if len(done) > 0 {
				done = done[:len(done)-1]
			}
			for _, pc := range done {
				if pc.Name == "write" && strings.Contains(pc.Detail, ".dat") && strings.Contains(pc.Detail, "/data/") && !strings.Contains(pc.Detail, "len=0") {
					recorded = true
				}
			}
			wantRuns := 1
			if c.Prior {
				wantRuns = 2
			}
			if got := len(h.NewDataStores().HistoryStore().ReadStatusRecent(file, 10)); recorded && got < wantRuns {
				fail("a status of the run had been recorded before the kill, yet afterwards the history shows %d run(s), expected %d: the run has vanished and the latest status (%q) is not about it", got, wantRuns, st.Status)
			}
			// the daemon still handles it: one tick at a matching minute issues a start
			rc := &recClient{Client: cli}
			sc := scheduler.New(&config.Config{DAGs: h.DAGs, WorkDir: h.Dir, Executable: "/bin/false", LogDir: h.Logs}, sim.Quiet, rc)
			tick := time.Now().Add(2 * time.Minute).Truncate(time.Minute)
			sc.VerifRunTick(tick)
			deadline := time.Now().Add(3 * time.Second)
			for time.Now().Before(deadline) {
				rc.mu.Lock()
				n := rc.starts
				rc.mu.Unlock()
				if n > 0 {
					break
				}
				time.Sleep(2 * time.Millisecond)
			}
			rc.mu.Lock()
			n := rc.starts
			rc.mu.Unlock()
			if n != 1 {
				fail("afterwards a daemon tick at a matching minute issued %d start(s) for the DAG (latest status %q)", n, st.Status)
			}
			// and it can be started again
			for _, m := range markers {
				os.Remove(filepath.Join(work, m+".ran"))
			}
			cmd := exec.Command(os.Getenv("VERIF_BIN"), "start", "-q", file)
			cmd.Env, cmd.Dir = cliEnv(h), h.Dir
			out, err := cmd.CombinedOutput()
			if err != nil {
				fail("afterwards a new `blackdagger start` fails: %v: %s", err, tail(string(out)))
			}
			for _, m := range markers {
				if _, err := os.Stat(filepath.Join(work, m+".ran")); err != nil {
					fail("afterwards a new `blackdagger start` exited 0 but did not run %s", m)
				}
			}
			st2, err := cli.GetLatestStatus(d)
			if err != nil || st2.Status != dagscheduler.StatusSuccess {
				fail("after the new run the latest status is %v (err=%v), expected finished", st2, err)
			}
			phase := "startup"
			switch {
			case ran["onExit"]:
				phase = "shutdown"
			case ran["s1"] || ran["s2"]:
				phase = "between-steps-or-handlers"
			case call.Name == "execve":
				phase = "step-spawn"
			}
			rep.Eval(rep.Hash(map[string]any{"s": c.Shape, "p": c.Prior, "k": k}), "crash-phase:"+phase, "syscall:"+call.Name, "status-after:"+st.Status.String())
			if rep.WantSample() {
				rep.Sample(map[string]any{"stage": "crash", "shape": c.Shape, "prior": c.Prior, "killedAt": what, "markers": keysOf(ran), "statusAfter": st.Status.String()})
			}
		}()
	}
}

// priorAnswer: with an earlier successful run on record, a kill before the new
// run has persisted anything legitimately leaves that earlier run as the latest.
func priorAnswer(st interface{ ToJSON() ([]byte, error) }, h *agentkit.Home, file string) bool {
	b, _ := st.ToJSON()
	var m map[string]any
	json.Unmarshal(b, &m)
	runs := h.NewDataStores().HistoryStore().ReadStatusRecent(file, 10)
	if len(runs) == 0 {
		return false
	}
	oldest := runs[len(runs)-1].Status.RequestID
	return m["RequestId"] == oldest && len(runs) == 1
}

func keysOf(m map[string]bool) []string {
	var k []string
	for x := range m {
		k = append(k, x)
	}
	return k
}

func tail(s string) string {
	if len(s) > 400 {
		return s[len(s)-400:]
	}
	return s
}

func TestCrash(t *testing.T) {
	if os.Getenv("VERIF_BIN") == "" || crashkit.Sysstop() == "" {
		t.Fatal("VERIF_BIN / VERIF_SYSSTOP not set")
	}
	rapid.Check(t, func(t *rapid.T) {
		c := CrashCase{Shape: rapid.IntRange(0, 2).Draw(t, "shape"), Prior: rapid.Bool().Draw(t, "prior")}
		for i := 0; i < 5; i++ {
			c.Picks = append(c.Picks, rapid.IntRange(0, 99999).Draw(t, "pick"))
		}
		checkCrash(t, c)
	})
	// the shutdown of a run, call by call: across the 16 shards each of its last
	// 16 calls is a kill point once in every run of the check
	if !rep.Thorough() {
		shard := rep.EnvInt("VERIF_SHARD", 0)
		checkCrash(t, CrashCase{Shape: (shard + rep.EnvInt("VERIF_SEED", 1)) % 3, Prior: shard%2 == 0, Tail: shard%16 + 1})
	}
}

func TestReplay(t *testing.T) {
	p := rep.ReplayPath()
	if p == "" {
		t.Skip("no VERIF_REPLAY")
	}
	cf, err := rep.LoadCase(p)
	if err != nil {
		t.Fatal(err)
	}
	if cf.Sub == "crash" {
		var c CrashCase
		if err := json.Unmarshal(cf.Case, &c); err != nil {
			t.Fatal(err)
		}
		checkCrash(t, c)
		return
	}
	replayLive(t, cf.Case)
}
