// C08 — reported status is truthful: live while running, final afterwards,
// never stuck. Live part: the real agent runs a generated DAG in-process on the
// scripted executor (YAML `executor: verif`); the harness owns when each
// attempt ends, queries the status (socket first, history as fallback — what
// client.GetLatestStatus does) at every decision point and from a concurrent
// poller, and compares with the executor's trace.
package c08

import (
	"context"
	"encoding/json"
	"fmt"
	"net"
	"os"
	"strings"
	"sync"
	"testing"
	"time"

	"github.com/ErdemOzgen/blackdagger/internal/dag"
	"github.com/ErdemOzgen/blackdagger/internal/dag/scheduler"
	"github.com/ErdemOzgen/blackdagger/internal/persistence/model"
	"github.com/ErdemOzgen/blackdagger/verifharness/agentkit"
	"github.com/ErdemOzgen/blackdagger/verifharness/rep"
	"github.com/ErdemOzgen/blackdagger/verifharness/sim"
	"pgregory.net/rapid"
)

const ID = "C08"

func TestMain(m *testing.M) { rep.Main(m, ID) }

// LiveCase is a DagCase plus the size of the definition: BigDesc > 0 gives the
// first step a description of that many bytes, so that the status document the
// run serves and records is large (beyond 64 KiB).
type LiveCase struct {
	sim.Case
	BigDesc int `json:"bigDesc,omitempty"`
	// IdlePeer: another local peer connects to the DAG's status socket while
	// the run is in progress and sends nothing (a suspended client, a port
	// probe); status queries must keep being answered.
	IdlePeer bool `json:"idlePeer,omitempty"`
}

func genLive(t *rapid.T) LiveCase {
	lc := LiveCase{Case: genDag(t)}
	if rapid.IntRange(0, 3).Draw(t, "big") == 0 {
		lc.BigDesc = rapid.SampledFrom([]int{5000, 70000, 140000}).Draw(t, "bigDesc")
	}
	lc.IdlePeer = rapid.IntRange(0, 2).Draw(t, "idlePeer") == 0
	return lc
}

func genDag(t *rapid.T) sim.Case {
	c := sim.Gen(t, sim.GenOpts{MaxSteps: 4, Retries: true, Handlers: true, Preconds: true})
	c.MaxActive, c.DelayUS, c.TimeoutP, c.Stop, c.Dry = 0, 0, 0, nil, false
	for i := range c.Steps {
		c.Steps[i].SetupFail = false
		if c.Steps[i].RetryLimit > 1 {
			c.Steps[i].RetryLimit = 1
		}
		if c.Steps[i].FailFirst > 2 {
			c.Steps[i].FailFirst = 2
		}
		c.Steps[i].RetryIvUS = 0
	}
	if rapid.IntRange(0, 3).Draw(t, "slowRetry") == 0 {
		// one retried step waits a full second before its next attempt: the
		// attempts' timestamps (persisted with a resolution of one second) differ
		for i := range c.Steps {
			if c.Steps[i].RetryLimit >= 1 && c.Steps[i].FailFirst != 0 {
				c.Steps[i].RetryIvUS = 1000000
				break
			}
		}
	}
	if len(c.Sched) > 6 {
		c.Sched = c.Sched[:6]
	}
	return c
}

func yamlOf(c *sim.Case) string { return sim.YAML(c, 0, "") }

func yamlBig(c *sim.Case, bigDesc int) string { return sim.YAML(c, bigDesc, "") }

type observation struct {
	When   string            `json:"when"`
	Status string            `json:"status"`
	ReqID  string            `json:"reqId"`
	Nodes  map[string]string `json:"nodes"`
}

// judgeLive compares one live observation with the executor's ground truth at
// (about) the same instant: open attempts before and after the query.
func judgeLive(c *sim.Case, id string, st *model.Status, openBefore, openAfter map[string]bool) string {
	if st.RequestID != id {
		return fmt.Sprintf("live status carries request id %q, the run in progress is %q", st.RequestID, id)
	}
	if st.Status != scheduler.StatusRunning {
		return fmt.Sprintf("a run is in progress (attempts open: %v) but its DAG status is reported %q", keys(openBefore), st.Status)
	}
	nodes := map[string]*model.Node{}
	for _, n := range st.Nodes {
		nodes[n.Step.Name] = n
	}
	for _, s := range c.Steps {
		n := nodes[s.Name]
		if n == nil {
			return fmt.Sprintf("live status has no node for step %q", s.Name)
		}
		if openBefore[s.Name] && openAfter[s.Name] && n.Status != scheduler.NodeStatusRunning {
			return fmt.Sprintf("step %q was executing during the whole status query but is reported %q", s.Name, n.Status)
		}
		// a step cannot have started while one of its dependencies is in the
		// middle of an execution (during the whole query)
		for _, d := range s.Depends {
			if openBefore[d] && openAfter[d] {
				if n.Status == scheduler.NodeStatusRunning || n.Status == scheduler.NodeStatusSuccess || n.Status == scheduler.NodeStatusError {
					return fmt.Sprintf("step %q is reported %q while its dependency %q is still executing", s.Name, n.Status, d)
				}
			}
		}
	}
	return ""
}

func keys(m map[string]bool) []string {
	var k []string
	for x, v := range m {
		if v {
			k = append(k, x)
		}
	}
	return k
}

func snapshot(w *sim.World) (open, exited, started map[string]bool) {
	open, exited, started = map[string]bool{}, map[string]bool{}, map[string]bool{}
	for _, ev := range w.Trace() {
		switch ev.Kind {
		case sim.EvEnter:
			open[ev.Step], started[ev.Step] = true, true
		case sim.EvExit:
			open[ev.Step] = false
			exited[ev.Step] = true
		}
	}
	return
}

func checkLive(t rep.Fataler, lc LiveCase) {
	rep.Begin(ID, "live", lc)
	c := lc.Case
	snap := agentkit.EnvSnapshot()
	defer agentkit.RestoreEnv(snap)
	h, err := agentkit.NewHome("/bin/false")
	if err != nil {
		t.Fatalf("home: %v", err)
	}
	defer h.Cleanup()
	file, _ := h.WriteDAG("c08", yamlBig(&c, lc.BigDesc))
	d, err := dag.Load("", file, "")
	if err != nil {
		rep.Fail(t, ID, "live", lc, map[string]any{"yaml": yamlOf(&c)}, "generated definition rejected: %v", err)
	}
	_, scripts := sim.BuildSteps(&c)
	w := sim.NewWorld(scripts)
	id := agentkit.NextReqID()
	ag := h.NewAgent(id, d, nil)
	runErr := make(chan error, 1)
	go func() { runErr <- ag.Run(context.Background()) }()

	// concurrent poller: the status query must never fail or go backwards
	var pmu sync.Mutex
	var pollErr string
	polls := 0
	stopPoll := make(chan struct{})
	var pwg sync.WaitGroup
	pwg.Add(1)
	go func() {
		defer pwg.Done()
		sawRunning := false
		for {
			select {
			case <-stopPoll:
				return
			default:
			}
			st, err := h.Cli.GetLatestStatus(d)
			pmu.Lock()
			polls++
			if err != nil && pollErr == "" {
				pollErr = fmt.Sprintf("GetLatestStatus failed while the run was in progress / ending: %v", err)
			}
			if err == nil && st != nil {
				if st.RequestID == id && st.Status == scheduler.StatusRunning {
					sawRunning = true
				}
				if sawRunning && st.Status == scheduler.StatusNone && pollErr == "" {
					pollErr = "after the run had been reported running, the DAG is reported 'not started'"
				}
			}
			pmu.Unlock()
			time.Sleep(700 * time.Microsecond)
		}
	}()

	var obs []observation
	var idle net.Conn
	di := 0
	deadline := time.Now().Add(40 * time.Second * time.Duration(sim.LoadFactor()))
	finished := false
	var rerr error
	liveChecked := 0
loop:
	for time.Now().Before(deadline) {
		select {
		case rerr = <-runErr:
			finished = true
			break loop
		default:
		}
		blocked := w.Blocked()
		if len(blocked) == 0 {
			time.Sleep(2 * time.Millisecond)
			continue
		}
		if lc.IdlePeer && idle == nil {
			if cn, err := net.Dial("unix", d.SockAddr()); err == nil {
				idle = cn
				defer cn.Close()
			}
		}
		// observation instant: something is executing right now
		ob, _, _ := snapshot(w)
		st, err := h.Cli.GetLatestStatus(d)
		oa, _, _ := snapshot(w)
		if err != nil {
			close(stopPoll)
			pwg.Wait()
			w.ReleaseAll()
			rep.Fail(t, ID, "live", lc, map[string]any{"trace": w.Trace()}, "status query failed while steps %v were executing: %v", keys(ob), err)
		}
		o := observation{When: fmt.Sprintf("open=%v", keys(ob)), Status: st.Status.String(), ReqID: st.RequestID, Nodes: map[string]string{}}
		for _, n := range st.Nodes {
			o.Nodes[n.Step.Name] = n.Status.String()
		}
		obs = append(obs, o)
		onlyHandlers := true
		for k := range ob {
			if ob[k] && !sim.IsHandler(k) {
				onlyHandlers = false
			}
		}
		if msg := judgeLive(&c, id, st, ob, oa); msg != "" && !(onlyHandlers && strings.Contains(msg, "DAG status")) {
			close(stopPoll)
			pwg.Wait()
			w.ReleaseAll()
			rep.Fail(t, ID, "live", lc, map[string]any{"observation": o, "trace": w.Trace()}, "%s", msg)
		} else if msg != "" {
			close(stopPoll)
			pwg.Wait()
			w.ReleaseAll()
			rep.Fail(t, ID, "live", lc, map[string]any{"observation": o, "trace": w.Trace()}, "while the lifecycle handlers %v were executing: %s", keys(ob), msg)
		}
		liveChecked++
		dec := sim.Decision{Pick: 0, Batch: 1}
		if di < len(c.Sched) {
			dec = c.Sched[di]
			di++
		}
		blocked = w.Blocked()
		if len(blocked) == 0 {
			continue
		}
		start := dec.Pick % len(blocked)
		for k := 0; k < max(dec.Batch, 1) && k < len(blocked); k++ {
			w.Release(blocked[(start+k)%len(blocked)])
		}
	}
	close(stopPoll)
	pwg.Wait()
	if !finished {
		w.ReleaseAll()
		rep.Inconclusive("agent run did not end within the bound")
		return
	}
	_ = rerr
	pmu.Lock()
	pe, np := pollErr, polls
	pmu.Unlock()
	if pe != "" {
		rep.Fail(t, ID, "live", lc, map[string]any{"polls": np}, "%s", pe)
	}
	// after the run's end: the persisted final status is the truth about every step
	sf, err := h.NewDataStores().HistoryStore().FindByRequestID(file, id)
	if err != nil {
		rep.Fail(t, ID, "live", lc, nil, "the finished run is not in the history: %v", err)
	}
	latest, err := h.Cli.GetLatestStatus(d)
	if err != nil || latest.RequestID != id {
		rep.Fail(t, ID, "live", lc, nil, "after the run ended the latest status is not this run's (err=%v)", err)
	}
	if b1, _ := latest.ToJSON(); true {
		b2, _ := sf.Status.ToJSON()
		if string(b1) != string(b2) {
			rep.Fail(t, ID, "live", lc, map[string]any{"latest": string(b1), "recorded": string(b2)}, "after the run ended the reported status differs from the persisted final status")
		}
	}
	res := &sim.Result{Trace: w.Trace(), Final: map[string]sim.NodeFinal{}, Status: sf.Status.Status.String()}
	for _, n := range sf.Status.Nodes {
		res.Final[n.Step.Name] = sim.NodeFinal{Status: n.Status.String(), RetryCount: n.RetryCount, Log: n.Log}
		an := sim.Analyze(res.Trace)
		if sim.Executed(an, n.Step.Name) > 0 {
			if n.Log == "" {
				rep.Fail(t, ID, "live", lc, nil, "executed step %q has no log path in the final status", n.Step.Name)
			}
			if _, err := os.Stat(n.Log); err != nil {
				rep.Fail(t, ID, "live", lc, nil, "log file %q named in the final status of step %q does not exist", n.Log, n.Step.Name)
			}
			if n.StartedAt == "" || n.StartedAt == "-" || n.FinishedAt == "" || n.FinishedAt == "-" || n.StartedAt > n.FinishedAt {
				rep.Fail(t, ID, "live", lc, nil, "step %q: started %q, finished %q in the final status", n.Step.Name, n.StartedAt, n.FinishedAt)
			}
		}
	}
	if msg := sim.JudgeC02(&c, res); msg != "" {
		rep.Fail(t, ID, "live", lc, map[string]any{"final": res.Final, "trace": res.Trace}, "persisted final status contradicts what was executed: %s", msg)
	}
	if msg := sim.JudgeC03(&c, res); msg != "" {
		rep.Fail(t, ID, "live", lc, map[string]any{"final": res.Final, "trace": res.Trace}, "persisted final status contradicts what was executed: %s", msg)
	}
	if want := sim.ExpectedOutcomeNoStop(&c, res); res.Status != want {
		rep.Fail(t, ID, "live", lc, map[string]any{"final": res.Final}, "persisted DAG status %q, the step states dictate %q", res.Status, want)
	}
	key := ""
	if liveChecked >= 2 && len(c.Steps) >= 2 {
		key = rep.Hash(c.Key() + "|" + fmt.Sprint(obs))
	}
	sizeLabel := "status-document:small"
	if lc.BigDesc >= 70000 {
		sizeLabel = "status-document:>64KiB"
	}
	peerLabel := "idle-peer:none"
	if idle != nil {
		peerLabel = "idle-peer:connected"
	}
	rep.Eval(key, fmt.Sprintf("live-observations:%d", min(liveChecked, 6)), "final:"+res.Status, sizeLabel, peerLabel)
	rep.Label(fmt.Sprintf("poller-queries>=%d", np/100*100))
	if key != "" && rep.WantSample() {
		rep.Sample(map[string]any{"stage": "live", "steps": c.Steps, "observations": obs, "final": res.Final, "polls": np})
	}
}

func TestLive(t *testing.T) {
	rapid.Check(t, func(t *rapid.T) { checkLive(t, genLive(t)) })
}

func replayLive(t *testing.T, raw json.RawMessage) {
	var c LiveCase
	if err := json.Unmarshal(raw, &c); err != nil {
		t.Fatal(err)
	}
	for i := 0; i < 5; i++ {
		checkLive(t, c)
	}
}
