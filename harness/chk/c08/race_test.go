package c08

import (
	"context"
	"fmt"
	"sync"
	"sync/atomic"
	"testing"

	"github.com/ErdemOzgen/blackdagger/internal/dag"
	"github.com/ErdemOzgen/blackdagger/verifharness/agentkit"
	"github.com/ErdemOzgen/blackdagger/verifharness/rep"
	"github.com/ErdemOzgen/blackdagger/verifharness/sim"
)

// TestShutdownPolling: the status of a DAG is polled without pause by several
// readers (as the web UI and the daemon do) while short runs start and end —
// the instants at which the run's history file is created, compacted into its
// _c twin and removed. No query may fail.
func TestShutdownPolling(t *testing.T) {
	rep.Begin(ID, "poll", map[string]any{"probe": "shutdown-polling"})
	snap := agentkit.EnvSnapshot()
	defer agentkit.RestoreEnv(snap)
	h, err := agentkit.NewHome("/bin/false")
	if err != nil {
		t.Fatal(err)
	}
	defer h.Cleanup()
	c := sim.Case{Steps: []sim.StepSpec{{Name: "a", RetryLimit: -1}}, PauseUS: 100}
	file, _ := h.WriteDAG("c08poll", yamlOf(&c))
	d, err := dag.Load("", file, "")
	if err != nil {
		t.Fatal(err)
	}
	runs := 6
	if rep.Thorough() {
		runs = 60
	}
	var stop atomic.Bool
	var mu sync.Mutex
	firstErr := ""
	var queries atomic.Int64
	var wg sync.WaitGroup
	for p := 0; p < 4; p++ {
		wg.Add(1)
		go func() {
			defer wg.Done()
			cli := h.Cli
			for !stop.Load() {
				_, err := cli.GetLatestStatus(d)
				queries.Add(1)
				if err != nil {
					mu.Lock()
					if firstErr == "" {
						firstErr = err.Error()
					}
					mu.Unlock()
				}
			}
		}()
	}
	for i := 0; i < runs; i++ {
		w := sim.NewWorld(map[string]sim.Script{"a": {SelfExit: true}})
		_ = w
		if err := h.NewAgent(agentkit.NextReqID(), d, nil).Run(context.Background()); err != nil {
			stop.Store(true)
			wg.Wait()
			t.Fatalf("run %d: %v", i, err)
		}
	}
	stop.Store(true)
	wg.Wait()
	mu.Lock()
	fe := firstErr
	mu.Unlock()
	if fe != "" {
		rep.Fail(t, ID, "poll", map[string]any{"probe": "shutdown-polling", "runs": runs}, nil, "a latest-status query failed while runs were starting / ending: %s (after %d queries)", fe, queries.Load())
	}
	rep.Eval(rep.Hash(fmt.Sprint("poll", rep.EnvInt("VERIF_SHARD", 0))), "shutdown-polling")
	rep.Label(fmt.Sprintf("shutdown-polling-queries>=%d", queries.Load()/1000*1000))
}
