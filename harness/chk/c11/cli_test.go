package c11

import (
	"context"
	"fmt"
	"os"
	"os/exec"
	"path/filepath"
	"strings"
	"testing"
	"time"

	"github.com/ErdemOzgen/blackdagger/verifharness/agentkit"
	"github.com/ErdemOzgen/blackdagger/verifharness/rep"
	"gopkg.in/yaml.v2"
	"pgregory.net/rapid"
)

// CLICase: parameters given on the command line of the real binary
// (`blackdagger start -p <string> file`), then `retry --req` and `restart`.
type CLICase struct {
	Params []Tok `json:"params"`
}

func genCLI(t *rapid.T) CLICase {
	c := CLICase{Params: genToks(t, "cli")}
	if len(c.Params) == 0 {
		c.Params = []Tok{{Value: "only"}}
	}
	// The CLI strips one pair of surrounding quotes from the whole --params
	// value (pinned by cmd/start_test.go: --params="p3 p4"), so a string that
	// begins AND ends with a quote is ambiguous by specification: steer away
	// by construction.
	if s := render(c.Params); strings.HasPrefix(s, `"`) && strings.HasSuffix(s, `"`) {
		c.Params = append([]Tok{{Value: "lead"}}, c.Params...)
	}
	return c
}

func checkCLI(t rep.Fataler, c CLICase) {
	rep.Begin(ID, "cli", c)
	bin, emit := os.Getenv("VERIF_BIN"), os.Getenv("VERIF_TOOL_EMIT")
	h, err := agentkit.NewHome(bin)
	if err != nil {
		t.Fatalf("home: %v", err)
	}
	defer h.Cleanup()
	work := filepath.Join(h.Dir, "work")
	os.MkdirAll(work, 0o755)
	pr := func(n string) string { return filepath.Join(work, "probe_"+n) }
	envStep := func(name string, deps ...string) map[string]any {
		m := map[string]any{"name": name, "command": "env -0", "stdout": pr(name)}
		if len(deps) > 0 {
			m["depends"] = deps
		}
		return m
	}
	def := map[string]any{
		"params": "default1 VP_A=defaultA",
		"steps": []any{
			envStep("cons1"),
			map[string]any{"name": "gate", "command": fmt.Sprintf("%s %s 1 0 0 0", emit, filepath.Join(work, "gate.cnt")), "depends": []string{"cons1"}},
			envStep("cons2", "gate"),
		},
		"handlerOn": map[string]any{"exit": map[string]any{"command": "env -0", "stdout": pr("onExit")}},
	}
	b, _ := yaml.Marshal(def)
	file, err := h.WriteDAG("c11cli", string(b))
	if err != nil {
		t.Fatalf("write: %v", err)
	}
	paramStr := render(c.Params)
	env := append(os.Environ(), "HOME="+h.Dir, "BLACKDAGGER_HOME="+h.Dir, "BLACKDAGGER_DAGS_DIR="+h.DAGs, "BLACKDAGGER_DATA_DIR="+h.Data,
		"BLACKDAGGER_LOG_DIR="+h.Logs, "BLACKDAGGER_SUSPEND_FLAGS_DIR="+h.Flags, "BLACKDAGGER_EXECUTABLE="+bin, "BLACKDAGGER_WORK_DIR="+h.Dir)
	runCLI := func(args ...string) (string, error) {
		ctx, cancel := context.WithTimeout(context.Background(), 60*time.Second)
		defer cancel()
		cmd := exec.CommandContext(ctx, bin, args...)
		cmd.Env, cmd.Dir = env, h.Dir
		out, err := cmd.CombinedOutput()
		if ctx.Err() != nil {
			return string(out), fmt.Errorf("timeout")
		}
		return string(out), err
	}
	collect := func(run string, names []string) string {
		for _, n := range names {
			p, ok := readProbe(pr(n))
			if !ok {
				return fmt.Sprintf("%s: step/handler %q left no probe (it did not run)", run, n)
			}
			if m := checkProbe(run, n, p, c.Params, nil); m != "" {
				return m
			}
			os.Remove(pr(n))
		}
		return ""
	}
	fail := func(obs any, format string, a ...any) { rep.Fail(t, ID, "cli", c, obs, format, a...) }

	out, err := runCLI("start", "-q", "-p", paramStr, file)
	if err != nil && err.Error() == "timeout" {
		rep.Inconclusive("blackdagger start exceeded 60 s")
		return
	}
	if m := collect("`blackdagger start -p '"+paramStr+"'`", []string{"cons1", "onExit"}); m != "" {
		fail(map[string]any{"output": tail(out)}, "%s", m)
	}
	hist := h.NewDataStores().HistoryStore().ReadStatusRecent(file, 1)
	if len(hist) != 1 {
		fail(map[string]any{"output": tail(out)}, "`blackdagger start` recorded no run")
	}
	id1, recorded := hist[0].Status.RequestID, hist[0].Status.Params
	out, err = runCLI("retry", "--req="+id1, file)
	if err != nil && err.Error() == "timeout" {
		rep.Inconclusive("blackdagger retry exceeded 60 s")
		return
	}
	if m := collect(fmt.Sprintf("`blackdagger retry` of the run started with -p '%s' (recorded %q)", paramStr, recorded), []string{"cons2", "onExit"}); m != "" {
		fail(map[string]any{"output": tail(out), "err": fmt.Sprint(err)}, "%s", m)
	}
	out, err = runCLI("restart", "-q", file)
	if err != nil && err.Error() == "timeout" {
		rep.Inconclusive("blackdagger restart exceeded 60 s")
		return
	}
	if m := collect(fmt.Sprintf("`blackdagger restart` after the run started with -p '%s'", paramStr), []string{"cons1", "cons2", "onExit"}); m != "" {
		fail(map[string]any{"output": tail(out), "err": fmt.Sprint(err)}, "%s", m)
	}
	if n := len(h.NewDataStores().HistoryStore().ReadStatusRecent(file, 10)); n != 3 {
		fail(nil, "start + retry + restart must be recorded as three runs, history has %d", n)
	}
	key := ""
	if nontrivialToks(c.Params) {
		key = rep.Hash(c)
	}
	rep.Eval(key, "leg:cli-start", "leg:cli-retry", "leg:cli-restart")
	if key != "" && rep.WantSample() {
		rep.Sample(map[string]any{"stage": "cli", "argv": []string{"blackdagger", "start", "-q", "-p", paramStr, "<file>"}})
	}
}

func tail(s string) string {
	if len(s) > 600 {
		return s[len(s)-600:]
	}
	return s
}

func TestCLI(t *testing.T) {
	if os.Getenv("VERIF_BIN") == "" || os.Getenv("VERIF_TOOL_EMIT") == "" {
		t.Fatal("VERIF_BIN / VERIF_TOOL_EMIT not set")
	}
	rapid.Check(t, func(t *rapid.T) { checkCLI(t, genCLI(t)) })
}
