// C11 — parameters and step outputs reach the steps that use them, unchanged.
//
// Stage "parse": parameter strings built token by token in the documented
// syntax (so the expected values are known by construction) go through the
// real evaluating loader; DAG.Params, the exported environment, and the
// record -> reload round trip performed by retry / restart are compared.
// Stage "proc": real child processes. A producer prints a generated payload
// (`output:`), `env -0` consumers at every position (non-adjacent descendant,
// unrelated later step, each handler, a retry, a restart) dump the exact
// environment they saw into probe files.
package c11

import (
	"context"
	"encoding/json"
	"fmt"
	"os"
	"path/filepath"
	"regexp"
	"sort"
	"strconv"
	"strings"
	"testing"
	"time"
	"unicode/utf8"

	"github.com/ErdemOzgen/blackdagger/internal/dag"
	"github.com/ErdemOzgen/blackdagger/internal/persistence/model"
	"github.com/ErdemOzgen/blackdagger/verifharness/agentkit"
	"github.com/ErdemOzgen/blackdagger/verifharness/pat"
	"github.com/ErdemOzgen/blackdagger/verifharness/rep"
	"github.com/ErdemOzgen/blackdagger/verifharness/sim"
	"gopkg.in/yaml.v2"
	"pgregory.net/rapid"
)

const ID = "C11"

func TestMain(m *testing.M) { rep.Main(m, ID) }

// Tok is one parameter in the documented syntax.
type Tok struct {
	Name   string `json:"name,omitempty"` // "" = positional
	Value  string `json:"value"`
	Quoted bool   `json:"quoted,omitempty"`
}

// Render writes the token in the documented syntax: bare word, "quoted value",
// NAME=value, NAME="quoted value" (a quote inside a quoted value is \").
func (t Tok) Render() string {
	v := t.Value
	if t.Quoted {
		v = `"` + strings.ReplaceAll(v, `"`, `\"`) + `"`
	}
	if t.Name != "" {
		return t.Name + "=" + v
	}
	return v
}

// Positional is what $n must hold (for a named parameter NAME=value, pinned by
// builder_test ParamsWithComplexValues).
func (t Tok) Positional() string {
	if t.Name != "" {
		return t.Name + "=" + t.Value
	}
	return t.Value
}

func render(toks []Tok) string {
	var s []string
	for _, t := range toks {
		s = append(s, t.Render())
	}
	return strings.Join(s, " ")
}

const bareChars = "abcxyzABCXYZ0189_-./:,@%+"

var quotedExtra = []string{" ", " ", " ", "=", `"`, "'", "é", "日本", "\t", "  ", "\n", "\n", "#", "(", ")", "*", "?", "!", "&", ";", "|", "<", ">", "{", "}", "[", "]", "~", `\d+`, `\\t`, `\\n`, `a\b`, `\\r`, `C:\\new\\temp`}

func genBare(t *rapid.T, allowEq bool, label string) string {
	n := rapid.IntRange(1, 8).Draw(t, label+"Len")
	var sb strings.Builder
	for i := 0; i < n; i++ {
		if allowEq && i > 0 && rapid.IntRange(0, 9).Draw(t, label+"Eq") == 0 {
			sb.WriteByte('=')
			continue
		}
		sb.WriteByte(bareChars[rapid.IntRange(0, len(bareChars)-1).Draw(t, label+"Ch")])
	}
	return sb.String()
}

func genQuotedValue(t *rapid.T, label string) string {
	n := rapid.IntRange(0, 10).Draw(t, label+"Len")
	var sb strings.Builder
	for i := 0; i < n; i++ {
		if rapid.IntRange(0, 2).Draw(t, label+"Special") == 0 {
			sb.WriteString(rapid.SampledFrom(quotedExtra).Draw(t, label+"Sp"))
		} else {
			sb.WriteByte(bareChars[rapid.IntRange(0, len(bareChars)-1).Draw(t, label+"Ch")])
		}
	}
	return sb.String()
}

var numericNameRe = regexp.MustCompile(`^[0-9]+=`)

var paramNames = []string{"VP_A", "VP_B", "VP_LONG_NAME", "vp_lower", "VP_1"}

func genToks(t *rapid.T, label string) []Tok {
	n := rapid.IntRange(0, 5).Draw(t, label+"N")
	var toks []Tok
	used := map[string]bool{}
	for i := 0; i < n; i++ {
		var k Tok
		switch rapid.IntRange(0, 3).Draw(t, label+"Kind") {
		case 0:
			k = Tok{Value: genBare(t, false, label+"Bare")}
		case 1:
			k = Tok{Value: genQuotedValue(t, label+"Q"), Quoted: true}
		case 2:
			k = Tok{Name: rapid.SampledFrom(paramNames).Draw(t, label+"Name"), Value: genBare(t, true, label+"NBare")}
		default:
			k = Tok{Name: rapid.SampledFrom(paramNames).Draw(t, label+"Name"), Value: genQuotedValue(t, label+"NQ"), Quoted: true}
		}
		if k.Name != "" {
			if used[k.Name] {
				k.Name = ""
				if !k.Quoted {
					k.Value = strings.ReplaceAll(k.Value, "=", "-")
				}
			} else {
				used[k.Name] = true
			}
		}
		if k.Name == "" && numericNameRe.MatchString(k.Value) {
			// a positional value of the form <digits>=... is indistinguishable,
			// once recorded, from a parameter *named* <digits>, which would
			// overwrite a positional variable: excluded by construction
			// (ambiguous in the syntax itself), stated in the assumptions.
			k.Value = "p" + k.Value
		}
		toks = append(toks, k)
	}
	return toks
}

func nontrivialToks(toks []Tok) bool {
	for _, k := range toks {
		if strings.ContainsAny(k.Value, " \"=\t") {
			return true
		}
	}
	return false
}

// known findings: values the current tree is known to mishandle (signature
// predicates; the main generator steers away from OPEN ones only).
func sigOf(toks []Tok) string {
	return ""
}

// ---------------------------------------------------------------- parse stage

// ParseCase is one case of the parse stage.
type ParseCase struct {
	Defaults []Tok `json:"defaults"`
	Override []Tok `json:"override,omitempty"`
	UseOver  bool  `json:"useOverride,omitempty"`
}

func writeDef(dir string, params string, extra map[string]any) (string, error) {
	def := map[string]any{"steps": []any{map[string]any{"name": "s1", "command": "true"}}}
	if params != "" {
		def["params"] = params
	}
	for k, v := range extra {
		def[k] = v
	}
	b, err := yaml.Marshal(def)
	if err != nil {
		return "", err
	}
	p := filepath.Join(dir, "c11.yaml")
	return p, os.WriteFile(p, b, 0o644)
}

func envOf(toks []Tok) (pos []string, named map[string]string) {
	named = map[string]string{}
	for _, k := range toks {
		pos = append(pos, k.Positional())
		if k.Name != "" {
			named[k.Name] = k.Value
		}
	}
	return
}

func compareLoaded(what string, d *dag.DAG, toks []Tok) string {
	pos, named := envOf(toks)
	if len(d.Params) != len(pos) {
		return fmt.Sprintf("%s: DAG.Params has %d entries %q, expected %d %q", what, len(d.Params), d.Params, len(pos), pos)
	}
	for i := range pos {
		if d.Params[i] != pos[i] {
			return fmt.Sprintf("%s: DAG.Params[%d] = %q, expected %q", what, i, d.Params[i], pos[i])
		}
		if got, ok := os.LookupEnv(strconv.Itoa(i + 1)); !ok || got != pos[i] {
			return fmt.Sprintf("%s: $%d = %q (set=%v), expected %q", what, i+1, got, ok, pos[i])
		}
	}
	for n, v := range named {
		if got, ok := os.LookupEnv(n); !ok || got != v {
			return fmt.Sprintf("%s: $%s = %q (set=%v), expected %q", what, n, got, ok, v)
		}
	}
	return ""
}

func checkParse(t rep.Fataler, c ParseCase) {
	snap := agentkit.EnvSnapshot()
	defer agentkit.RestoreEnv(snap)
	dir, err := os.MkdirTemp(sim.ScratchRoot(), "vc11p")
	if err != nil {
		t.Fatalf("tmp: %v", err)
	}
	defer os.RemoveAll(dir)
	file, err := writeDef(dir, render(c.Defaults), nil)
	if err != nil {
		t.Fatalf("write: %v", err)
	}
	eff, over := c.Defaults, ""
	if c.UseOver {
		eff, over = c.Override, render(c.Override)
		if over == "" {
			eff = c.Defaults // an empty override means "use the defaults"
		}
	}
	d, err := dag.Load("", file, over)
	if err != nil {
		rep.Fail(t, ID, "parse", c, nil, "parameter string %q (documented syntax) rejected: %v", render(eff), err)
	}
	if msg := compareLoaded("load of `"+render(eff)+"`", d, eff); msg != "" {
		rep.Fail(t, ID, "parse", c, map[string]any{"params": d.Params}, "%s", msg)
	}
	// what retry / restart do: the recorded parameter string is re-parsed
	recorded := model.Params(d.Params)
	agentkit.RestoreEnv(snap)
	d2, err := dag.Load("", file, recorded)
	if err != nil {
		rep.Fail(t, ID, "parse", c, nil, "recorded parameter string %q rejected on reload: %v", recorded, err)
	}
	effRT := eff
	if recorded == "" {
		effRT = c.Defaults
	}
	if msg := compareLoaded(fmt.Sprintf("reload with the recorded string %q of a run started with `%s`", recorded, render(eff)), d2, effRT); msg != "" {
		rep.Fail(t, ID, "parse", c, map[string]any{"recorded": recorded, "params": d2.Params}, "%s", msg)
	}
	key := ""
	if nontrivialToks(eff) {
		key = rep.Hash(c)
	}
	var labels []string
	for _, k := range eff {
		switch {
		case k.Name == "" && !k.Quoted:
			labels = append(labels, "tok:bare")
		case k.Name == "" && k.Quoted:
			labels = append(labels, "tok:quoted")
		case !k.Quoted:
			labels = append(labels, "tok:NAME=bare")
		default:
			labels = append(labels, "tok:NAME=quoted")
		}
		if strings.Contains(k.Value, " ") {
			labels = append(labels, "value:space")
		}
		if strings.Contains(k.Value, `"`) {
			labels = append(labels, "value:quote")
		}
		if strings.Contains(k.Value, "=") {
			labels = append(labels, "value:equals")
		}
	}
	if c.UseOver {
		labels = append(labels, "source:override")
	} else {
		labels = append(labels, "source:defaults")
	}
	rep.Eval(key, labels...)
	if key != "" && rep.WantSample() {
		rep.Sample(map[string]any{"stage": "parse", "string": render(eff), "expected": func() []string { p, _ := envOf(eff); return p }()})
	}
}

func genParse(t *rapid.T) ParseCase {
	c := ParseCase{Defaults: genToks(t, "def")}
	if rapid.Bool().Draw(t, "useOverride") {
		c.UseOver = true
		c.Override = genToks(t, "over")
	}
	return c
}

func TestParse(t *testing.T) {
	rapid.Check(t, func(t *rapid.T) {
		c := genParse(t)
		if s := sigOf(append(append([]Tok{}, c.Defaults...), c.Override...)); s != "" && rep.Known(s) {
			rep.Excluded(s)
			return
		}
		checkParse(t, c)
	})
}

// ---------------------------------------------------------------- proc stage

// ProcCase is one real-process case.
type ProcCase struct {
	Params   []Tok  `json:"params"`
	AsOver   bool   `json:"asOverride,omitempty"` // given at start (-p) instead of as the file's defaults
	Payload  string `json:"payload"`              // what the producer prints to stdout (may be invalid UTF-8: hex in JSON via PayloadHex)
	ErrNoise int    `json:"errNoise,omitempty"`   // bytes the producer also prints to stderr
	// ProdRetry: the producer has a retry policy and fails its first attempt
	// after having printed the payload; the variable holds the LAST attempt's stdout
	ProdRetry bool `json:"prodRetry,omitempty"`
	// EnvClash: the definition has an `env:` entry with the NAME of a named
	// parameter that is given: the parameter is what steps have to see
	EnvClash bool `json:"envClash,omitempty"`
}

func genPayload(t *rapid.T) string {
	unit := rapid.SampledFrom([]string{
		"a", "word ", "two words\n", "k=v ", "$HOME ", "${X} ", `back\slash `, `"dq" `, "'sq' ", "é日本 ", "line1\nline2\n", "\ttab ", "`bt` ", "%s %d ", "a=b=c ", "  ", "\r\n",
	}).Draw(t, "unit")
	size := rapid.SampledFrom([]int{0, 1, 2, 17, 100, 4095, 4096, 4097, 65535, 65536, 65537, 100000}).Draw(t, "size")
	if rapid.IntRange(0, 3).Draw(t, "rndSize") == 0 {
		size = rapid.IntRange(0, 9000).Draw(t, "sizeRnd")
	}
	var sb strings.Builder
	for sb.Len() < size {
		sb.WriteString(unit)
	}
	body := sb.String()
	// cut at a rune boundary
	for len(body) > size && size >= 0 {
		_, w := utf8.DecodeLastRuneInString(body)
		if w == 0 {
			break
		}
		body = body[:len(body)-w]
	}
	lead := rapid.SampledFrom([]string{"", "", " ", "\n", "\t \n"}).Draw(t, "lead")
	trail := rapid.SampledFrom([]string{"", "\n", "\n", " \n\n", "\r\n"}).Draw(t, "trail")
	return lead + body + trail
}

func genProc(t *rapid.T) ProcCase {
	c := ProcCase{Params: genToks(t, "p"), AsOver: rapid.Bool().Draw(t, "asOverride"), Payload: genPayload(t)}
	if rapid.IntRange(0, 2).Draw(t, "noise") == 0 {
		c.ErrNoise = rapid.SampledFrom([]int{1, 50, 5000}).Draw(t, "noiseN")
	}
	c.ProdRetry = rapid.IntRange(0, 2).Draw(t, "prodRetry") == 0 && len(c.Payload) < 60000
	c.EnvClash = rapid.IntRange(0, 2).Draw(t, "envClash") == 0
	return c
}

const outVar = "VP_OUT"

func prodStep(c ProcCase, emit, work, payloadFile string) map[string]any {
	k := 0
	if c.ProdRetry {
		k = 1
	}
	m := map[string]any{"name": "prod", "command": fmt.Sprintf("%s %s %d 0 %d 0 %s", emit, filepath.Join(work, "prod.cnt"), k, c.ErrNoise, payloadFile), "output": outVar}
	if c.ProdRetry {
		m["retryPolicy"] = map[string]int{"limit": 1, "intervalSec": 0}
	}
	return m
}

type probe map[string][]string // every occurrence of a name in the child's environment

func readProbe(path string) (probe, bool) {
	b, err := os.ReadFile(path)
	if err != nil {
		return nil, false
	}
	p := probe{}
	for _, kv := range strings.Split(string(b), "\x00") {
		if i := strings.IndexByte(kv, '='); i > 0 {
			p[kv[:i]] = append(p[kv[:i]], kv[i+1:])
		}
	}
	return p, true
}

func checkProbe(run, name string, p probe, toks []Tok, wantOut *string) string {
	pos, named := envOf(toks)
	chk := func(k, want string) string {
		vs, ok := p[k]
		if !ok {
			return fmt.Sprintf("%s: step/handler %q does not see $%s at all (expected %q)", run, name, k, abbreviate(want))
		}
		for _, v := range vs {
			if v != want {
				return fmt.Sprintf("%s: step/handler %q sees $%s = %q, expected %q (len %d vs %d)", run, name, k, abbreviate(v), abbreviate(want), len(v), len(want))
			}
		}
		return ""
	}
	for i, v := range pos {
		if m := chk(strconv.Itoa(i+1), v); m != "" {
			return m
		}
	}
	for k, v := range named {
		if m := chk(k, v); m != "" {
			return m
		}
	}
	if wantOut != nil {
		if m := chk(outVar, *wantOut); m != "" {
			return m
		}
	}
	// and nothing that was NOT given: no further positional parameter, no named
	// parameter of the file's defaults that the effective parameters do not contain
	for i := len(pos) + 1; i <= 9; i++ {
		if vs, ok := p[strconv.Itoa(i)]; ok {
			return fmt.Sprintf("%s: step/handler %q sees $%d = %q although only %d parameter(s) were given", run, name, i, abbreviate(vs[0]), len(pos))
		}
	}
	for _, n := range paramNames {
		if _, given := named[n]; !given {
			if vs, ok := p[n]; ok {
				return fmt.Sprintf("%s: step/handler %q sees $%s = %q although no parameter of that name was given", run, name, n, abbreviate(vs[0]))
			}
		}
	}
	return ""
}

func abbreviate(s string) string {
	if len(s) > 80 {
		return s[:40] + "…" + s[len(s)-30:]
	}
	return s
}

func checkProc(t rep.Fataler, c ProcCase) {
	rep.Begin(ID, "proc", c)
	snap := agentkit.EnvSnapshot()
	defer agentkit.RestoreEnv(snap)
	emit := os.Getenv("VERIF_TOOL_EMIT")
	h, err := agentkit.NewHome("")
	if err != nil {
		t.Fatalf("home: %v", err)
	}
	defer h.Cleanup()
	work := filepath.Join(h.Dir, "work")
	os.MkdirAll(work, 0o755)
	payloadFile := filepath.Join(work, "payload")
	os.WriteFile(payloadFile, []byte(c.Payload), 0o644)
	pr := func(n string) string { return filepath.Join(work, "probe_"+n) }
	marker := filepath.Join(work, "prod.done")
	envStep := func(name string, deps ...string) map[string]any {
		m := map[string]any{"name": name, "command": "env -0", "stdout": pr(name)}
		if len(deps) > 0 {
			m["depends"] = deps
		}
		return m
	}
	steps := []any{
		prodStep(c, emit, work, payloadFile),
		map[string]any{"name": "mid", "command": "touch " + marker, "depends": []string{"prod"}},
		envStep("cons1", "mid"),
		map[string]any{"name": "wait", "command": fmt.Sprintf("sh -c 'while [ ! -e %s ]; do sleep 0.02; done'", marker)},
		envStep("later", "wait"),
		map[string]any{"name": "gate", "command": fmt.Sprintf("%s %s 2 0 0 0", emit, filepath.Join(work, "gate.cnt")), "depends": []string{"cons1", "later"}},
		envStep("cons2", "gate"),
	}
	// the consumer position "$n / $NAME inside a command line": an argument
	// recorder gets every given parameter as an argument of its own
	argPos, argNamed := envOf(c.Params)
	if c.AsOver && render(c.Params) == "" {
		argPos, argNamed = []string{"default1", "defaultA"}, map[string]string{"VP_A": "defaultA"}
		argPos[1] = "VP_A=defaultA"
	}
	var argNames []string
	for _, n := range paramNames {
		if _, ok := argNamed[n]; ok {
			argNames = append(argNames, n)
		}
	}
	argFile := filepath.Join(work, "args1")
	argCmd := os.Getenv("VERIF_TOOL_ARGDUMP") + " " + argFile
	var wantArgs []string
	for i := range argPos {
		if i >= 4 {
			break
		}
		argCmd += fmt.Sprintf(" $%d", i+1)
		wantArgs = append(wantArgs, argPos[i])
	}
	for _, n := range argNames {
		argCmd += " ${" + n + "}"
		wantArgs = append(wantArgs, argNamed[n])
	}
	// … and the captured output of the producer as the last argument
	outAsArg := len(c.Payload) < 100000
	if outAsArg {
		argCmd += " ${" + outVar + "}"
	}
	steps = append(steps, map[string]any{"name": "args1", "command": argCmd, "depends": []string{"mid"}})
	handler := func(n string) map[string]any { return map[string]any{"command": "env -0", "stdout": pr(n)} }
	def := map[string]any{
		"steps":     steps,
		"handlerOn": map[string]any{"success": handler("onSuccess"), "failure": handler("onFailure"), "exit": handler("onExit")},
	}
	if c.EnvClash && len(argNames) > 0 {
		def["env"] = []any{map[string]string{argNames[0]: "from-the-env-block"}, map[string]string{"VP_UNRELATED_ENV": "kept"}}
	}
	paramStr := render(c.Params)
	over := ""
	if c.AsOver {
		def["params"] = "default1 VP_A=defaultA"
		over = paramStr
	} else if paramStr != "" {
		def["params"] = paramStr
	}
	eff := c.Params
	if c.AsOver && over == "" {
		eff = []Tok{{Value: "default1"}, {Name: "VP_A", Value: "defaultA"}}
	}
	b, _ := yaml.Marshal(def)
	file, err := h.WriteDAG("c11", string(b))
	if err != nil {
		t.Fatalf("write: %v", err)
	}
	wantOut := strings.TrimSpace(c.Payload)
	validUTF8 := utf8.ValidString(c.Payload)
	ctx, cancel := context.WithTimeout(context.Background(), 60*time.Second)
	defer cancel()

	collect := func(run string, names []string, withOut map[string]bool) string {
		for _, n := range names {
			p, ok := readProbe(pr(n))
			if !ok {
				return fmt.Sprintf("%s: step/handler %q left no probe (it did not run)", run, n)
			}
			var wo *string
			if withOut[n] {
				wo = &wantOut
			}
			if m := checkProbe(run, n, p, eff, wo); m != "" {
				return m
			}
			os.Remove(pr(n))
		}
		return ""
	}
	fail := func(obs any, format string, a ...any) {
		rep.Fail(t, ID, "proc", c, obs, format, a...)
	}

	// the process that starts the run happens to have the output variable's name in
	// its environment already: what the producer prints (nothing at all, possibly)
	// replaces it
	os.Setenv(outVar, "stale-value-inherited-from-the-environment")
	// run 1: prod ok, gate fails -> onFailure + onExit
	id1, _, runErr := h.Start(ctx, file, over)
	if ctx.Err() != nil {
		rep.Inconclusive("run 1 exceeded 60 s")
		return
	}
	if id1 == "" {
		fail(nil, "start with parameters `%s` failed: %v", paramStr, runErr)
	}
	all := map[string]bool{"cons1": true, "later": true, "onFailure": true, "onExit": true, "cons2": true, "onSuccess": true}
	if m := collect("run started with `"+paramStr+"`", []string{"cons1", "later", "onFailure", "onExit"}, all); m != "" {
		fail(map[string]any{"runErr": fmt.Sprint(runErr)}, "%s", m)
	}
	if ab, err := os.ReadFile(argFile); err != nil {
		fail(map[string]any{"command": argCmd}, "run started with `%s`: the step whose command line names the parameters left no record (it did not run)", paramStr)
	} else {
		got := strings.Split(strings.TrimSuffix(string(ab), "\x00"), "\x00")
		if len(ab) == 0 {
			got = nil
		}
		if outAsArg {
			// the output variable: equal to the trimmed payload; an empty value may
			// reach the process as an empty argument or as no argument
			wo := strings.TrimSpace(c.Payload)
			switch {
			case len(got) == len(wantArgs)+1:
				if got[len(got)-1] != wo {
					fail(map[string]any{"command": argCmd}, "run started with `%s`: the producer's output reaches a later command line (${%s}) as %q, the trimmed output is %q", paramStr, outVar, abbreviate(got[len(got)-1]), abbreviate(wo))
				}
				got = got[:len(got)-1]
			case len(got) == len(wantArgs) && wo == "":
			default:
				fail(map[string]any{"command": argCmd, "got": got}, "run started with `%s`: the command line `%s` reached the process with %d argument(s), expected %d parameter(s) and the producer's output", paramStr, argCmd, len(got), len(wantArgs))
			}
		}
		if len(got) != len(wantArgs) {
			fail(map[string]any{"command": argCmd, "got": got, "want": wantArgs}, "run started with `%s`: the command line `%s` reached the process with %d argument(s) %q, expected %d %q", paramStr, argCmd, len(got), got, len(wantArgs), wantArgs)
		}
		for i := range got {
			if got[i] != wantArgs[i] {
				fail(map[string]any{"command": argCmd, "got": got, "want": wantArgs}, "run started with `%s`: argument %d of the command line `%s` is %q, the parameter's value is %q", paramStr, i+1, argCmd, abbreviate(got[i]), abbreviate(wantArgs[i]))
			}
		}
		os.Remove(argFile)
	}
	sf, err := h.DS.HistoryStore().FindByRequestID(file, id1)
	if err != nil {
		fail(nil, "run 1 not found in history: %v", err)
	}
	labels := []string{"leg:start"}
	if validUTF8 {
		// first retry: the gate fails once more -> onFailure + onExit again, the
		// producer and cons1 are kept; the recorded outputs must survive into
		// the status this retry records.
		agentkit.RestoreEnv(snap)
		id2, _, _, err := h.Retry(ctx, file, id1)
		if ctx.Err() != nil {
			rep.Inconclusive("retry exceeded 60 s")
			return
		}
		if id2 == "" {
			fail(map[string]any{"recordedParams": sf.Status.Params}, "retry of the run started with `%s` (recorded parameter string %q) failed: %v", paramStr, sf.Status.Params, err)
		}
		if m := collect(fmt.Sprintf("first retry of the run started with `%s` (recorded parameter string %q)", paramStr, sf.Status.Params), []string{"onFailure", "onExit"}, all); m != "" {
			fail(map[string]any{"recordedParams": sf.Status.Params, "retryErr": fmt.Sprint(err)}, "%s", m)
		}
		// second retry (a retry of the retry): gate succeeds now, cons2 +
		// onSuccess + onExit run
		agentkit.RestoreEnv(snap)
		id2b, _, st2, err := h.Retry(ctx, file, id2)
		if ctx.Err() != nil {
			rep.Inconclusive("second retry exceeded 60 s")
			return
		}
		if id2b == "" {
			fail(nil, "retry of the retry failed: %v", err)
		}
		if m := collect(fmt.Sprintf("retry of the retry of the run started with `%s` (recorded parameter string %q)", paramStr, st2.Params), []string{"cons2", "onSuccess", "onExit"}, all); m != "" {
			fail(map[string]any{"recordedParams": st2.Params, "retryErr": fmt.Sprint(err)}, "%s", m)
		}
		if _, ok := readProbe(pr("cons1")); ok {
			fail(nil, "retry re-executed cons1, which had finished in the recorded run")
		}
		wantInv := "1"
		if c.ProdRetry {
			wantInv = "2"
		}
		if b, _ := os.ReadFile(filepath.Join(work, "prod.cnt")); strings.TrimSpace(string(b)) != wantInv {
			fail(nil, "retry re-executed the producer (invocations: %s)", b)
		}
		labels = append(labels, "leg:retry")
		// restart: a fresh run with the parameters of the latest run
		agentkit.RestoreEnv(snap)
		os.Remove(marker) // the marker orders "later" after the producer of *this* run
		id3, _, err := h.Restart(ctx, file)
		if ctx.Err() != nil {
			rep.Inconclusive("restart exceeded 60 s")
			return
		}
		if id3 == "" {
			fail(nil, "restart failed: %v", err)
		}
		if m := collect(fmt.Sprintf("restart after the run started with `%s`", paramStr), []string{"cons1", "later", "cons2", "onSuccess", "onExit"}, all); m != "" {
			fail(map[string]any{"restartErr": fmt.Sprint(err)}, "%s", m)
		}
		labels = append(labels, "leg:restart")
	} else {
		labels = append(labels, "payload:invalid-utf8(same-run consumers only)")
	}
	key := ""
	if nontrivialToks(eff) || len(c.Payload) >= 4095 || strings.ContainsAny(wantOut, "\n\"=$ ") {
		key = rep.Hash(c)
	}
	switch n := len(c.Payload); {
	case n == 0:
		labels = append(labels, "payload:empty")
	case n < 4095:
		labels = append(labels, "payload:<4095")
	case n <= 4097:
		labels = append(labels, "payload:4095..4097")
	case n < 65535:
		labels = append(labels, "payload:4098..65534")
	default:
		labels = append(labels, "payload:>=65535")
	}
	if c.ErrNoise > 0 {
		labels = append(labels, "producer-also-writes-stderr")
	}
	if c.ProdRetry {
		labels = append(labels, "producer-retried")
	}
	if strings.Contains(wantOut, "\n") {
		labels = append(labels, "payload:multiline")
	}
	rep.Eval(key, labels...)
	if key != "" && rep.WantSample() {
		rep.Sample(map[string]any{"stage": "proc", "params": paramStr, "payloadLen": len(c.Payload), "payloadHead": abbreviate(c.Payload), "legs": labels})
	}
}

func TestProp(t *testing.T) {
	if os.Getenv("VERIF_TOOL_EMIT") == "" {
		t.Fatal("VERIF_TOOL_EMIT not set")
	}
	rapid.Check(t, func(t *rapid.T) {
		c := genProc(t)
		if s := sigOf(c.Params); s != "" && rep.Known(s) {
			rep.Excluded(s)
			return
		}
		checkProc(t, c)
	})
}

func TestReplay(t *testing.T) {
	p := rep.ReplayPath()
	if p == "" {
		t.Skip("no VERIF_REPLAY")
	}
	cf, err := rep.LoadCase(p)
	if err != nil {
		t.Fatal(err)
	}
	switch cf.Sub {
	case "cli":
		var c CLICase
		if err := json.Unmarshal(cf.Case, &c); err != nil {
			t.Fatal(err)
		}
		checkCLI(t, c)
	case "parse":
		var c ParseCase
		if err := json.Unmarshal(cf.Case, &c); err != nil {
			t.Fatal(err)
		}
		checkParse(t, c)
	default:
		var c ProcCase
		if err := json.Unmarshal(cf.Case, &c); err != nil {
			t.Fatal(err)
		}
		checkProc(t, c)
	}
}

var _ = sort.Strings
var _ = pat.Filter
