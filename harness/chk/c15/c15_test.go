// C15 — no more steps at once than maxActiveRuns; k=0 means no limit; the
// limit never prevents completion.
package c15

import (
	"encoding/json"
	"fmt"
	"testing"

	"github.com/ErdemOzgen/blackdagger/verifharness/rep"
	"github.com/ErdemOzgen/blackdagger/verifharness/sim"
	"pgregory.net/rapid"
)

const ID = "C15"

func TestMain(m *testing.M) { rep.Main(m, ID) }

func gen(t *rapid.T) sim.Case {
	w := rapid.IntRange(1, 8).Draw(t, "width")
	max := w + 3
	if rep.Thorough() {
		max = w + 6
	}
	c := sim.Gen(t, sim.GenOpts{MaxSteps: max, MinWidth: w, Retries: true, Preconds: true, Redirects: true})
	// the first w steps (names a..) are independent roots; k from 0..w+1
	c.MaxActive = rapid.IntRange(0, w+1).Draw(t, "k")
	if c.MaxActive == 0 {
		// "no limit": hold everything until all w roots are open at once.
		for i := range c.Steps {
			s := &c.Steps[i]
			if len(s.Depends) == 0 {
				s.Precond, s.SetupFail = 0, false
			}
		}
		roots := 0
		for _, s := range c.Steps {
			if len(s.Depends) == 0 {
				roots++
			}
		}
		c.HoldOpen = roots
	} else if rapid.IntRange(0, 3).Draw(t, "repeatVariant") == 0 {
		// a repeating step (it keeps its slot while it pauses between two
		// repetitions, like a step waiting out a retry interval); the run is
		// ended by a stop request after a generated number of events
		s := &c.Steps[rapid.IntRange(0, len(c.Steps)-1).Draw(t, "repStep")]
		s.Repeat, s.RepeatIvUS = true, rapid.SampledFrom([]int{200, 800, 3000}).Draw(t, "repIv")
		s.FailFirst, s.RetryLimit, s.Precond, s.SetupFail = 0, -1, 0, false
		c.Stop = &sim.StopSpec{Trigger: "event", N: rapid.IntRange(4, 8*len(c.Steps)+8).Draw(t, "stopN")}
	}
	return c
}

func check(t rep.Fataler, c sim.Case) {
	r := sim.RunConfirm(c)
	if r.GraphErr != "" {
		rep.Fail(t, ID, "sched", c, r, "valid generated DAG refused: %s", r.GraphErr)
	}
	if r.Hang {
		rep.Fail(t, ID, "sched", c, r, "run with maxActiveRuns=%d never completed although every attempt was released (confirmed with 5x bound): %s", c.MaxActive, r.HangInfo)
	}
	if msg := sim.JudgeC15(&c, r); msg != "" {
		rep.Fail(t, ID, "sched", c, r, "%s", msg)
	}
	if c.HoldOpen > 0 && !r.HoldReached {
		rep.Fail(t, ID, "sched", c, r, "maxActiveRuns=0 (no limit) but the %d independent steps were never executing at once while all were held (high-water %d)", c.HoldOpen, sim.MaxOverlap(r.Trace))
	}
	roots := 0
	for _, s := range c.Steps {
		if len(s.Depends) == 0 {
			roots++
		}
	}
	retried := false
	an := sim.Analyze(r.Trace)
	for _, s := range c.Steps {
		if sim.Executed(an, s.Name) >= 2 {
			retried = true
		}
	}
	key := ""
	k := c.MaxActive
	if (k > 0 && roots > k && retried) || (k == 0 && roots >= 3) {
		key = rep.Hash(c.Key() + "|" + r.Order)
	}
	lab := []string{fmt.Sprintf("hwm:%d", sim.MaxOverlap(r.Trace))}
	switch {
	case k == 0:
		lab = append(lab, "k=0")
	case roots > k:
		lab = append(lab, "limit-binds")
	default:
		lab = append(lab, "limit-slack")
	}
	for _, s := range c.Steps {
		if s.Repeat {
			lab = append(lab, "repeating-step")
			if k > 0 && roots > k {
				key = rep.Hash(c.Key() + "|" + r.Order)
			}
		}
	}
	if k > 0 && sim.MaxOverlap(r.Trace) == k {
		lab = append(lab, "limit-reached")
	}
	rep.Eval(key, lab...)
	if key != "" && rep.WantSample() {
		rep.Sample(map[string]any{"case": c, "order": r.Order, "highWater": sim.MaxOverlap(r.Trace)})
	}
}

func TestProp(t *testing.T) {
	rapid.Check(t, func(t *rapid.T) { check(t, gen(t)) })
}

func TestReplay(t *testing.T) {
	p := rep.ReplayPath()
	if p == "" {
		t.Skip("no VERIF_REPLAY")
	}
	cf, err := rep.LoadCase(p)
	if err != nil {
		t.Fatal(err)
	}
	if cf.Sub == "agent" {
		var ac AgentCase
		if err := json.Unmarshal(cf.Case, &ac); err != nil {
			t.Fatal(err)
		}
		checkAgent(t, ac)
		return
	}
	var c sim.Case
	if err := json.Unmarshal(cf.Case, &c); err != nil {
		t.Fatal(err)
	}
	for i := 0; i < rep.EnvInt("VERIF_REPLAY_REPS", 300); i++ {
		check(t, c)
	}
}
