package c15

import (
	"context"
	"fmt"
	"os"
	"path/filepath"
	"testing"
	"time"

	"github.com/ErdemOzgen/blackdagger/internal/dag"
	"github.com/ErdemOzgen/blackdagger/verifharness/agentkit"
	"github.com/ErdemOzgen/blackdagger/verifharness/rep"
	"github.com/ErdemOzgen/blackdagger/verifharness/sim"
	"pgregory.net/rapid"
)

// Agent level: the limit as a user writes it — `maxActiveRuns` in the DAG file,
// in the base configuration every DAG inherits, or in both (the file wins) —
// loaded by the real loader and enforced in a run of the real agent on the
// scripted executor. Every attempt is held by the harness, so the number of
// commands executing at once climbs to whatever the run admits and stays there.

// AgentCase: W independent steps (+ one step depending on all of them).
type AgentCase struct {
	W     int `json:"w"`
	FileK int `json:"fileK"` // 0: the DAG file does not set maxActiveRuns
	BaseK int `json:"baseK"` // 0: no base configuration; -1: a base configuration that does not set it
}

func genAgent(t *rapid.T) AgentCase {
	w := rapid.IntRange(2, 6).Draw(t, "w")
	c := AgentCase{W: w}
	switch rapid.SampledFrom([]string{"file", "base", "base", "both", "base-without-limit", "none"}).Draw(t, "where") {
	case "file":
		c.FileK = rapid.IntRange(1, w+1).Draw(t, "fileK")
	case "base":
		c.BaseK = rapid.IntRange(1, w+1).Draw(t, "baseK")
	case "both":
		c.FileK, c.BaseK = rapid.IntRange(1, w+1).Draw(t, "fileK"), rapid.IntRange(1, w+1).Draw(t, "baseK")
	case "base-without-limit":
		c.BaseK = -1
		if rapid.Bool().Draw(t, "fileToo") {
			c.FileK = rapid.IntRange(1, w+1).Draw(t, "fileK")
		}
	}
	return c
}

func checkAgent(t rep.Fataler, c AgentCase) {
	rep.Begin(ID, "agent", c)
	snap := agentkit.EnvSnapshot()
	defer agentkit.RestoreEnv(snap)
	h, err := agentkit.NewHome("/bin/false")
	if err != nil {
		t.Fatalf("home: %v", err)
	}
	defer h.Cleanup()
	sc := sim.Case{}
	var all []string
	for i := 0; i < c.W; i++ {
		n := string(rune('a' + i))
		sc.Steps = append(sc.Steps, sim.StepSpec{Name: n, RetryLimit: -1})
		all = append(all, n)
	}
	sc.Steps = append(sc.Steps, sim.StepSpec{Name: "join", Depends: all, RetryLimit: -1})
	y := sim.YAML(&sc, 0, "")
	if c.FileK > 0 {
		y = fmt.Sprintf("maxActiveRuns: %d\n", c.FileK) + y
	}
	file, _ := h.WriteDAG("limit", y)
	base := ""
	if c.BaseK != 0 {
		base = filepath.Join(h.Dir, "base.yaml")
		txt := "env:\n  - VERIF_BASE_MARK: \"1\"\n"
		if c.BaseK > 0 {
			txt += fmt.Sprintf("maxActiveRuns: %d\n", c.BaseK)
		}
		os.WriteFile(base, []byte(txt), 0o644)
	}
	d, err := dag.Load(base, file, "")
	if err != nil {
		rep.Fail(t, ID, "agent", c, nil, "generated definition rejected: %v", err)
	}
	k := c.FileK
	if k == 0 && c.BaseK > 0 {
		k = c.BaseK
	}
	_, scripts := sim.BuildSteps(&sc)
	w := sim.NewWorld(scripts)
	done := make(chan error, 1)
	go func() { done <- h.NewAgent(agentkit.NextReqID(), d, nil).Run(context.Background()) }()
	want := c.W
	if k > 0 && k < want {
		want = k
	}
	// let the run admit what it admits: until the expected level has been
	// stable for 4 polling periods of the scheduler, or the bound
	open := func() int { return len(w.Blocked()) }
	deadline := time.Now().Add(8 * time.Second * time.Duration(sim.LoadFactor()))
	hwm, stableSince := 0, time.Time{}
	for time.Now().Before(deadline) {
		n := open()
		if n > hwm {
			hwm = n
		}
		if n >= want {
			if stableSince.IsZero() {
				stableSince = time.Now()
			} else if time.Since(stableSince) > 450*time.Millisecond {
				break
			}
		}
		time.Sleep(5 * time.Millisecond)
	}
	w.ReleaseAll()
	select {
	case <-done:
	case <-time.After(40 * time.Second * time.Duration(sim.LoadFactor())):
		rep.Fail(t, ID, "agent", c, map[string]any{"trace": w.Trace()}, "the run did not complete although every attempt was released (maxActiveRuns: file %d, base %d)", c.FileK, c.BaseK)
	}
	if m := sim.MaxOverlap(w.Trace()); m > hwm {
		hwm = m
	}
	src := map[bool]string{true: "the DAG file", false: "the base configuration"}[c.FileK > 0]
	if k > 0 && hwm > k {
		rep.Fail(t, ID, "agent", c, map[string]any{"trace": w.Trace(), "loadedMaxActiveRuns": d.MaxActiveRuns}, "maxActiveRuns=%d (set in %s; file %d, base %d) but %d step commands were executing at once (the loader produced MaxActiveRuns=%d)", k, src, c.FileK, c.BaseK, hwm, d.MaxActiveRuns)
	}
	if k == 0 && hwm < c.W {
		rep.Fail(t, ID, "agent", c, map[string]any{"trace": w.Trace()}, "no limit configured but only %d of %d independent steps were executing at once while all were held", hwm, c.W)
	}
	key := ""
	if k > 0 && k < c.W {
		key = rep.Hash(c)
	}
	lab := "limit-from:none"
	switch {
	case c.FileK > 0 && c.BaseK > 0:
		lab = "limit-from:file-over-base"
	case c.FileK > 0:
		lab = "limit-from:file"
	case c.BaseK > 0:
		lab = "limit-from:base-config"
	}
	rep.Eval(key, lab, fmt.Sprintf("agent-hwm:%d", hwm))
	if key != "" && rep.WantSample() {
		rep.Sample(map[string]any{"stage": "agent", "case": c, "effectiveLimit": k, "highWater": hwm})
	}
}

func TestAgent(t *testing.T) {
	rapid.Check(t, func(t *rapid.T) { checkAgent(t, genAgent(t)) })
}
