// C20 — control actions through the API respect the state of the run.
// A rapid state machine drives the generated swagger API, configured by the
// real frontend handler over real data stores, with httptest JSON requests.
// DAG states are produced by really running the agent in-process (finished,
// failed, still running, canceled) or by fabricating the history of a crashed
// run; the spawned executable is a recorder (tools/fakeexe). Before and after
// every action everything observable is dumped and compared.
package c20

import (
	"bytes"
	"context"
	"encoding/json"
	"fmt"
	"net/http"
	"net/http/httptest"
	"os"
	"path/filepath"
	"sort"
	"strings"
	"testing"
	"time"

	"github.com/ErdemOzgen/blackdagger/internal/dag"
	"github.com/ErdemOzgen/blackdagger/internal/dag/scheduler"
	fdag "github.com/ErdemOzgen/blackdagger/internal/frontend/dag"
	"github.com/ErdemOzgen/blackdagger/internal/frontend/gen/restapi"
	"github.com/ErdemOzgen/blackdagger/internal/frontend/gen/restapi/operations"
	"github.com/ErdemOzgen/blackdagger/internal/persistence/model"
	"github.com/ErdemOzgen/blackdagger/verifharness/agentkit"
	"github.com/ErdemOzgen/blackdagger/verifharness/rep"
	"github.com/ErdemOzgen/blackdagger/verifharness/sim"
	"github.com/go-openapi/loads"
	"pgregory.net/rapid"
)

const ID = "C20"

func TestMain(m *testing.M) { rep.Main(m, ID) }

// Op is one step of the state machine.
type Op struct {
	Kind   string `json:"kind"` // run fail bg crash api
	Dag    int    `json:"dag"`
	Action string `json:"action,omitempty"` // api: start stop retry suspend mark-success mark-failed save rename bogus none malformed
	ReqSel int    `json:"reqSel,omitempty"` // 0 missing, 1 unknown, 2 of another DAG, 3 latest run, 4 older run, 5 prefix-colliding unknown id
	Step   int    `json:"step,omitempty"`   // 0 s1, 1 s2, 2 no such step, 3 empty
	Params int    `json:"params,omitempty"`
	Value  int    `json:"value,omitempty"`
}

// Case is an op sequence over NDags DAGs.
type Case struct {
	NDags int  `json:"nDags"`
	Ops   []Op `json:"ops"`
	// Big: every DAG carries a 70 000-byte step description, so its status document
	// (what the live agent answers on its socket) is larger than 64 KiB
	Big bool `json:"big,omitempty"`
}

// curBig is Case.Big of the case being executed (one case at a time per process).
var curBig bool

var paramPool = []string{"", "p1", "p1 p2", `"a b"`, `"a b" "c d"`, `a "b c" X=1`, `NAME="two words" last`, `x=1 'single' "dq \"esc\""`, "tab\tsep", "$HOME `echo hi`", "ünï 日本"}
var stepNames = []string{"s1", "s2", "nosuch", ""}

func gen(t *rapid.T) Case {
	c := Case{NDags: rapid.IntRange(2, 3).Draw(t, "nDags"), Big: rapid.IntRange(0, 2).Draw(t, "big") == 0}
	n := rapid.IntRange(4, 18).Draw(t, "nOps")
	if rep.Thorough() {
		n = rapid.IntRange(3, 30).Draw(t, "nOps2")
	}
	// a quarter of the sequences stay with one DAG that first gets an earlier run
	// (finished, failed or crashed) and then a live one: the states in which the
	// most actions have to be refused
	focus := rapid.IntRange(0, 3).Draw(t, "focus") == 0
	fd := rapid.IntRange(0, c.NDags-1).Draw(t, "focusDag")
	if focus {
		c.Ops = append(c.Ops, Op{Kind: rapid.SampledFrom([]string{"run", "fail", "crash"}).Draw(t, "focusPrior"), Dag: fd}, Op{Kind: rapid.SampledFrom([]string{"bg", "bg", "bgfail"}).Draw(t, "focusLive"), Dag: fd})
	}
	for i := 0; i < n; i++ {
		o := Op{Dag: rapid.IntRange(0, c.NDags-1).Draw(t, "dag")}
		o.Kind = rapid.SampledFrom([]string{"run", "fail", "bg", "bg", "bgfail", "crash", "api", "api", "api", "api", "api", "api", "api"}).Draw(t, "kind")
		if focus && rapid.IntRange(0, 3).Draw(t, "stay") > 0 {
			o.Dag, o.Kind = fd, "api"
		}
		if o.Kind == "api" {
			o.Action = rapid.SampledFrom([]string{"start", "start", "stop", "stop", "stop", "retry", "suspend", "mark-success", "mark-success", "mark-success", "mark-failed", "mark-failed", "mark-failed", "save", "rename", "bogus", "none", "malformed"}).Draw(t, "action")
			o.ReqSel = rapid.IntRange(0, 5).Draw(t, "reqSel")
			if o.Action == "mark-success" || o.Action == "mark-failed" {
				o.ReqSel = rapid.SampledFrom([]int{3, 3, 4, 4, 4, 5, 5, 1, 2, 0}).Draw(t, "reqSelMark")
			}
			o.Step = rapid.SampledFrom([]int{0, 0, 1, 1, 2, 3}).Draw(t, "step")
			o.Params = rapid.IntRange(0, len(paramPool)-1).Draw(t, "params")
			o.Value = rapid.IntRange(0, 3).Draw(t, "value")
		}
		c.Ops = append(c.Ops, o)
	}
	return c
}

// ---------------------------------------------------------------- world

type bgRun struct {
	cancel context.CancelFunc
	done   chan error
	req    string
}

type world struct {
	h       *agentkit.Home
	api     http.Handler
	names   []string
	files   []string
	bg      map[int]*bgRun
	exeLog  string
	crashN  int
	labels  map[string]bool
	refused int
	accepted int
}

func defText(work string, i int, running bool) string {
	s1 := "\"true\""
	if running {
		s1 = "sleep 30"
	}
	desc := ""
	if curBig {
		desc = "    description: " + strings.Repeat("d", 70000) + "\n"
	}
	return fmt.Sprintf("params: d1\nsteps:\n  - name: s1\n    command: %s\n%s  - name: s2\n    command: \"true\"\n    depends: [s1]\n", s1, desc)
}

func newWorld(c *Case) (*world, error) {
	h, err := agentkit.NewHome(os.Getenv("VERIF_TOOL_FAKEEXE"))
	if err != nil {
		return nil, err
	}
	curBig = c.Big
	w := &world{h: h, bg: map[int]*bgRun{}, labels: map[string]bool{}, exeLog: filepath.Join(h.Dir, "fakeexe.log")}
	if c.Big {
		w.labels["status-document-beyond-64KiB"] = true
	}
	os.Setenv("VERIF_FAKEEXE_LOG", w.exeLog)
	for i := 0; i < c.NDags; i++ {
		n := fmt.Sprintf("d%d", i)
		f, err := h.WriteDAG(n, defText(h.Dir, i, false))
		if err != nil {
			return nil, err
		}
		w.names, w.files = append(w.names, n), append(w.files, f)
	}
	spec, err := loads.Analyzed(restapi.SwaggerJSON, "")
	if err != nil {
		return nil, err
	}
	api := operations.NewBlackdaggerAPI(spec)
	api.Logger = func(string, ...any) {}
	fdag.NewHandler(&fdag.NewHandlerArgs{Client: h.Cli}, nil, "").Configure(api)
	w.api = api.Serve(nil)
	return w, nil
}

func (w *world) close() {
	for i := range w.bg {
		w.stopBg(i)
	}
	w.h.Cleanup()
}

func (w *world) stopFile(i int) string { return filepath.Join(w.h.Dir, fmt.Sprintf("bgfail-%d.stop", i)) }

func (w *world) stopBg(i int) {
	b := w.bg[i]
	if b == nil {
		return
	}
	os.WriteFile(w.stopFile(i), nil, 0o644)
	d, _ := dag.Load("", w.files[i], "")
	if d != nil {
		_ = w.h.Cli.Stop(d)
	}
	select {
	case <-b.done:
	case <-time.After(15 * time.Second):
		b.cancel()
	}
	delete(w.bg, i)
}

// dump is everything observable: definitions, suspend flags, every run of
// every DAG (last status, full JSON), the spawned-executable log.
func (w *world) dump() map[string]string {
	m := map[string]string{}
	for i, f := range w.files {
		b, err := os.ReadFile(f)
		m["def:"+w.names[i]] = fmt.Sprintf("%v|%s", err == nil, b)
		m["suspended:"+w.names[i]] = fmt.Sprint(w.h.Cli.IsSuspended(w.names[i]))
		for _, sf := range w.h.NewDataStores().HistoryStore().ReadStatusRecent(f, 1000) {
			b, _ := sf.Status.ToJSON()
			m["run:"+w.names[i]+":"+sf.Status.RequestID] = string(b)
		}
	}
	entries, _ := os.ReadDir(w.h.DAGs)
	var names []string
	for _, e := range entries {
		names = append(names, e.Name())
	}
	m["dagdir"] = strings.Join(names, ",")
	b, _ := os.ReadFile(w.exeLog)
	m["exe"] = string(b)
	return m
}

func diff(a, b map[string]string) []string {
	var d []string
	for k, v := range a {
		if bv, ok := b[k]; !ok {
			d = append(d, "-"+k)
		} else if bv != v {
			d = append(d, "~"+k)
		}
	}
	for k := range b {
		if _, ok := a[k]; !ok {
			d = append(d, "+"+k)
		}
	}
	sort.Strings(d)
	return d
}

func (w *world) runs(i int) []*model.StatusFile {
	return w.h.NewDataStores().HistoryStore().ReadStatusRecent(w.files[i], 1000)
}

func (w *world) post(dagID string, body []byte) (int, string) {
	req := httptest.NewRequest("POST", "/api/v1/dags/"+dagID, bytes.NewReader(body))
	req.Header.Set("Content-Type", "application/json")
	rec := httptest.NewRecorder()
	w.api.ServeHTTP(rec, req)
	return rec.Code, rec.Body.String()
}

func exeRecords(s string) [][]string {
	var out [][]string
	for _, l := range strings.Split(strings.TrimSpace(s), "\n") {
		if l == "" {
			continue
		}
		var a []string
		if json.Unmarshal([]byte(l), &a) == nil {
			out = append(out, a)
		}
	}
	return out
}

// unquote is the CLI's documented stripping of one surrounding pair of quotes.
func unquote(s string) string {
	if len(s) > 1 && s[0] == '"' && s[len(s)-1] == '"' {
		return s[1 : len(s)-1]
	}
	return s
}

func (w *world) apply(c *Case, idx int, o Op) string {
	i := o.Dag % c.NDags
	name, file := w.names[i], w.files[i]
	running := w.bg[i] != nil
	ctx := context.Background()
	switch o.Kind {
	case "run", "fail":
		if running {
			return ""
		}
		txt := defText(w.h.Dir, i, false)
		if o.Kind == "fail" {
			txt = strings.Replace(txt, "command: \"true\"\n  - name: s2", "command: \"false\"\n  - name: s2", 1)
		}
		os.WriteFile(file, []byte(txt), 0o644)
		_, _, _ = w.h.Start(ctx, file, "")
		os.WriteFile(file, []byte(defText(w.h.Dir, i, false)), 0o644)
		w.labels["state:"+map[string]string{"run": "finished", "fail": "failed"}[o.Kind]] = true
		return ""
	case "bg":
		if running {
			return ""
		}
		os.WriteFile(file, []byte(defText(w.h.Dir, i, true)), 0o644)
		d, err := dag.Load("", file, "")
		if err != nil {
			return "harness: " + err.Error()
		}
		id := agentkit.NextReqID()
		cctx, cancel := context.WithCancel(ctx)
		b := &bgRun{cancel: cancel, done: make(chan error, 1), req: id}
		go func() { b.done <- w.h.NewAgent(id, d, nil).Run(cctx) }()
		// wait until the run is really in progress: its status socket exists and its
		// own record shows s1 running. (Not asked through the client under test: a
		// client that cannot read the answer must not make the case inconclusive.)
		deadline := time.Now().Add(10 * time.Second * time.Duration(sim.LoadFactor()))
		ok := false
		for time.Now().Before(deadline) {
			if _, serr := os.Stat(d.SockAddr()); serr == nil {
				if sf, err := w.h.NewDataStores().HistoryStore().FindByRequestID(file, id); err == nil && len(sf.Status.Nodes) > 0 && sf.Status.Nodes[0].Status == scheduler.NodeStatusRunning {
					ok = true
					break
				}
			}
			time.Sleep(10 * time.Millisecond)
		}
		if !ok {
			cancel()
			return "harness-inconclusive: background run did not come up"
		}
		// … and the agent's delayed "running" status write has happened: from then on
		// (s1 sleeps for 30 s) nothing is written by the run on its own, so that a
		// before/after comparison around an action sees only what the action did.
		ok = false
		deadline = time.Now().Add(10 * time.Second * time.Duration(sim.LoadFactor()))
		for time.Now().Before(deadline) {
			if sf, err := w.h.NewDataStores().HistoryStore().FindByRequestID(file, id); err == nil && sf.Status.Status == scheduler.StatusRunning {
				ok = true
				break
			}
			time.Sleep(10 * time.Millisecond)
		}
		if !ok {
			cancel()
			return "harness-inconclusive: background run did not record its running status"
		}
		time.Sleep(30 * time.Millisecond)
		w.bg[i] = b
		w.labels["state:running"] = true
		return ""
	case "bgfail":
		// a live run of another kind: its only step has failed, no step executes,
		// and the process is busy with a long failure handler — still a run in progress
		if running {
			return ""
		}
		marker := filepath.Join(w.h.Dir, fmt.Sprintf("bgfail-%d.started", i))
		os.Remove(marker)
		script := filepath.Join(w.h.Dir, fmt.Sprintf("bgfail-%d.sh", i))
		// the handler lasts until the harness lets it go (a stop request does not
		// reach lifecycle handlers; they run to their end) or for a minute
		os.Remove(w.stopFile(i))
		os.WriteFile(script, []byte(fmt.Sprintf("#!/bin/sh\ntouch %s\nn=0\nwhile [ ! -e %s ] && [ $n -lt 1200 ]; do sleep 0.05; n=$((n+1)); done\n", marker, w.stopFile(i))), 0o755)
		txt := fmt.Sprintf("params: d1\nsteps:\n  - name: s1\n    command: \"false\"\n  - name: s2\n    command: \"true\"\n    depends: [s1]\nhandlerOn:\n  failure:\n    command: sh %s\n", script)
		os.WriteFile(file, []byte(txt), 0o644)
		d, err := dag.Load("", file, "")
		if err != nil {
			return "harness: " + err.Error()
		}
		id := agentkit.NextReqID()
		cctx, cancel := context.WithCancel(ctx)
		b := &bgRun{cancel: cancel, done: make(chan error, 1), req: id}
		go func() { b.done <- w.h.NewAgent(id, d, nil).Run(cctx) }()
		deadline := time.Now().Add(10 * time.Second * time.Duration(sim.LoadFactor()))
		up := false
		for time.Now().Before(deadline) && !up {
			if _, err := os.Stat(marker); err == nil {
				if _, serr := os.Stat(d.SockAddr()); serr == nil {
					up = true
				}
			}
			time.Sleep(10 * time.Millisecond)
		}
		if !up {
			cancel()
			return "harness-inconclusive: background run (failure handler) did not come up"
		}
		// the run's own record has to be quiet before actions are compared around it
		last, since := "", time.Now()
		for time.Now().Before(deadline) {
			cur := ""
			if sf, err := w.h.NewDataStores().HistoryStore().FindByRequestID(file, id); err == nil {
				jb, _ := sf.Status.ToJSON()
				cur = string(jb)
			}
			if cur != last {
				last, since = cur, time.Now()
			} else if cur != "" && time.Since(since) > 300*time.Millisecond {
				break
			}
			time.Sleep(10 * time.Millisecond)
		}
		w.bg[i] = b
		w.labels["state:running-failure-handler"] = true
		return ""
	case "crash":
		if running {
			return ""
		}
		w.crashN++
		req := fmt.Sprintf("%08x-crashed-%d", 0xc0000+w.crashN*7919, w.crashN)
		d, err := dag.Load("", file, "")
		if err != nil {
			return "harness: " + err.Error()
		}
		st := model.NewStatus(d, nil, scheduler.StatusRunning, 4242, model.Time(time.Now()), nil)
		st.RequestID = req
		st.Nodes[0].Status, st.Nodes[0].StatusText = scheduler.NodeStatusRunning, "running"
		hs := w.h.NewDataStores().HistoryStore()
		if err := hs.Open(file, time.Now(), req); err != nil {
			return "harness: " + err.Error()
		}
		hs.Write(st)
		hs.Close()
		w.labels["state:crashed"] = true
		return ""
	}
	// ---- an API action
	body := map[string]any{}
	if o.Action != "none" {
		body["action"] = o.Action
	}
	runs := w.runs(i)
	reqID, reqKind := "", "missing"
	switch o.ReqSel {
	case 1:
		reqID, reqKind = "ffffffff-no-such-run", "unknown"
	case 2:
		other := w.runs((i + 1) % c.NDags)
		if len(other) > 0 {
			reqID, reqKind = other[0].Status.RequestID, "other-dag"
		}
	case 3:
		if len(runs) > 0 {
			reqID, reqKind = runs[0].Status.RequestID, "latest"
		}
	case 4:
		if len(runs) > 1 {
			reqID, reqKind = runs[len(runs)-1].Status.RequestID, "older"
		} else if len(runs) > 0 {
			reqID, reqKind = runs[0].Status.RequestID, "latest"
		}
	case 5:
		if len(runs) > 0 && len(runs[0].Status.RequestID) > 9 {
			reqID, reqKind = runs[0].Status.RequestID[:8]+"-not-that-run", "unknown-prefix-collision"
		}
	}
	if reqID != "" {
		body["requestId"] = reqID
	}
	step := stepNames[o.Step%len(stepNames)]
	if step != "" {
		body["step"] = step
	}
	params := paramPool[o.Params%len(paramPool)]
	if o.Action == "start" && params != "" {
		body["params"] = params
	}
	switch o.Action {
	case "suspend":
		body["value"] = []string{"true", "false", "", "yes"}[o.Value%4]
	case "save":
		body["value"] = []string{defText(w.h.Dir, i, false), "steps: [\n", "steps:\n  - name: x\n", defText(w.h.Dir, i, false) + "# c\n"}[o.Value%4]
	case "rename":
		body["value"] = []string{"", w.names[(i+1)%c.NDags], name, w.names[(i+1)%c.NDags]}[o.Value%4]
	}
	raw, _ := json.Marshal(body)
	if o.Action == "malformed" {
		raw = []byte(`{"action": "start", "params": `)
	}
	before := w.dump()
	code, resp := w.post(name, raw)
	if (o.Action == "start" || o.Action == "retry") && code/100 == 2 {
		// StartAsync: wait for the spawned executable's record
		deadline := time.Now().Add(10 * time.Second * time.Duration(sim.LoadFactor()))
		for time.Now().Before(deadline) {
			b, _ := os.ReadFile(w.exeLog)
			if len(exeRecords(string(b))) > len(exeRecords(before["exe"])) {
				break
			}
			time.Sleep(5 * time.Millisecond)
		}
	}
	if o.Action == "stop" && code/100 == 2 && running {
		os.WriteFile(w.stopFile(i), nil, 0o644)
		b := w.bg[i]
		select {
		case <-b.done:
		case <-time.After(20 * time.Second):
			return "harness-inconclusive: accepted stop did not end the background run within 20 s"
		}
		delete(w.bg, i)
		os.WriteFile(file, []byte(defText(w.h.Dir, i, false)), 0o644)
		before["def:"+name] = fmt.Sprintf("%v|%s", true, defText(w.h.Dir, i, false))
		w.labels["state:canceled"] = true
	}
	time.Sleep(2 * time.Millisecond)
	after := w.dump()
	d := diff(before, after)
	desc := fmt.Sprintf("op %d: POST %s %s (DAG %s, running=%v, requestId=%s, step=%q) -> %d %s", idx, name, trunc(string(raw), 160), name, running, reqKind, step, code, trunc(resp, 120))
	ok2xx := code/100 == 2
	unchanged := func() string {
		if len(d) > 0 {
			det := ""
			for _, k := range d {
				det += fmt.Sprintf("\n  %s: before=%s after=%s", k, trunc(before[k[1:]], 400), trunc(after[k[1:]], 400))
			}
			return fmt.Sprintf("%s: the action was refused / is malformed, yet something changed: %v%s", desc, d, det)
		}
		w.refused++
		return ""
	}
	switch o.Action {
	case "none", "bogus", "malformed":
		if ok2xx {
			return desc + ": a malformed / unknown action was accepted"
		}
		return unchanged()
	case "start":
		if running {
			if ok2xx {
				return desc + ": start accepted while the DAG is running"
			}
			return unchanged()
		}
		if !ok2xx {
			return desc + ": start refused although the DAG is not running"
		}
		recB, recA := exeRecords(before["exe"]), exeRecords(after["exe"])
		if len(recA) != len(recB)+1 {
			return fmt.Sprintf("%s: accepted start spawned %d process(es), expected exactly one", desc, len(recA)-len(recB))
		}
		argv := recA[len(recA)-1]
		got, has := "", false
		for k, a := range argv {
			if (a == "-p" || a == "--params") && k+1 < len(argv) {
				got, has = unquote(argv[k+1]), true
			} else if strings.HasPrefix(a, "--params=") {
				got, has = unquote(strings.TrimPrefix(a, "--params=")), true
			}
		}
		if len(argv) == 0 || argv[0] != "start" || argv[len(argv)-1] != file {
			return fmt.Sprintf("%s: accepted start spawned %q, expected `start … %s`", desc, argv, file)
		}
		if (params != "") != has || got != params {
			return fmt.Sprintf("%s: the parameters handed to the start command are %q (present=%v), the request said %q", desc, got, has, params)
		}
		for _, k := range d {
			if k != "~exe" && k != "+exe" {
				return fmt.Sprintf("%s: accepted start changed more than the spawn record: %v", desc, d)
			}
		}
		w.accepted++
		w.labels["accepted:start"] = true
		return ""
	case "stop":
		if !running {
			if ok2xx {
				return desc + ": stop accepted although the DAG is not running"
			}
			return unchanged()
		}
		if !ok2xx {
			return desc + ": stop refused although the DAG is running"
		}
		for _, k := range d {
			if !strings.HasPrefix(k, "~run:"+name+":") {
				det := ""
				for _, k := range d {
					det += fmt.Sprintf("\n  %s: before=%s after=%s", k, trunc(before[k[1:]], 300), trunc(after[k[1:]], 300))
				}
				return fmt.Sprintf("%s: accepted stop changed something else than the stopped run: %v%s", desc, d, det)
			}
		}
		w.accepted++
		w.labels["accepted:stop"] = true
		return ""
	case "mark-success", "mark-failed":
		want := ok(reqKind == "latest" || reqKind == "older") && (step == "s1" || step == "s2") && !running
		if !want {
			if ok2xx {
				return fmt.Sprintf("%s: status edit accepted although it must be refused (running=%v, requestId %s, step %q)", desc, running, reqKind, step)
			}
			return unchanged()
		}
		if !ok2xx {
			return desc + ": status edit of an existing step of a recorded run refused although the DAG is not running"
		}
		key := "run:" + name + ":" + reqID
		if len(d) != 1 || d[0] != "~"+key {
			if len(d) == 0 {
				// marking a node that already has that state changes nothing
				var st model.Status
				json.Unmarshal([]byte(before[key]), &st)
				target := map[string]scheduler.NodeStatus{"mark-success": scheduler.NodeStatusSuccess, "mark-failed": scheduler.NodeStatusError}[o.Action]
				for _, n := range st.Nodes {
					if n.Step.Name == step && n.Status == target {
						w.accepted++
						return ""
					}
				}
			}
			return fmt.Sprintf("%s: accepted status edit must change exactly the addressed run %s, changed: %v", desc, reqID, d)
		}
		var a, b model.Status
		json.Unmarshal([]byte(before[key]), &b)
		json.Unmarshal([]byte(after[key]), &a)
		target := map[string]scheduler.NodeStatus{"mark-success": scheduler.NodeStatusSuccess, "mark-failed": scheduler.NodeStatusError}[o.Action]
		if len(a.Nodes) != len(b.Nodes) {
			return desc + ": status edit changed the number of nodes"
		}
		for k := range a.Nodes {
			if a.Nodes[k].Step.Name == step {
				if a.Nodes[k].Status != target || a.Nodes[k].StatusText != target.String() {
					return fmt.Sprintf("%s: step %s is %s after the edit, expected %s", desc, step, a.Nodes[k].StatusText, target)
				}
				a.Nodes[k].Status, a.Nodes[k].StatusText = b.Nodes[k].Status, b.Nodes[k].StatusText
			}
		}
		// permitted relabelling: a run recorded as running whose process is gone becomes failed
		if b.Status == scheduler.StatusRunning && a.Status == scheduler.StatusError {
			a.Status, a.StatusText = b.Status, b.StatusText
			w.labels["crashed-run-relabelled-failed"] = true
		}
		ja, _ := json.Marshal(&a)
		jb, _ := json.Marshal(&b)
		if string(ja) != string(jb) {
			return fmt.Sprintf("%s: the edit changed more than the addressed step: before %s after %s", desc, trunc(string(jb), 300), trunc(string(ja), 300))
		}
		w.accepted++
		w.labels["accepted:"+o.Action] = true
		return ""
	case "retry":
		if reqID == "" {
			if ok2xx {
				return desc + ": retry without a request id accepted"
			}
			return unchanged()
		}
		recB, recA := exeRecords(before["exe"]), exeRecords(after["exe"])
		if ok2xx {
			if len(recA) != len(recB)+1 {
				return fmt.Sprintf("%s: accepted retry spawned %d process(es)", desc, len(recA)-len(recB))
			}
			argv := recA[len(recA)-1]
			if len(argv) != 3 || argv[0] != "retry" || argv[1] != "--req="+reqID || argv[2] != file {
				return fmt.Sprintf("%s: accepted retry spawned %q", desc, argv)
			}
			for _, k := range d {
				if k != "~exe" && k != "+exe" {
					return fmt.Sprintf("%s: accepted retry changed more than the spawn record: %v", desc, d)
				}
			}
			w.accepted++
			return ""
		}
		return unchanged()
	case "suspend":
		if !ok2xx {
			return unchanged()
		}
		for _, k := range d {
			if k != "~suspended:"+name {
				return fmt.Sprintf("%s: suspend changed more than the DAG's own flag: %v", desc, d)
			}
		}
		wantFlag := fmt.Sprint(body["value"] == "true")
		if after["suspended:"+name] != wantFlag {
			return fmt.Sprintf("%s: suspend flag is %s after the action, expected %s", desc, after["suspended:"+name], wantFlag)
		}
		return ""
	case "save", "rename":
		if !ok2xx {
			return unchanged()
		}
		if o.Action == "rename" && len(d) > 0 {
			// an accepted rename moves definition + history (C18's business): undo by renaming back
			nn := body["value"].(string)
			if nn != name {
				if err := w.h.Cli.Rename(nn, name); err != nil {
					return "harness: rename back: " + err.Error()
				}
			}
			return ""
		}
		if o.Action == "save" && (o.Value%4 == 1 || o.Value%4 == 2) {
			// broken YAML / a step with nothing to execute: once stored, the DAG can no
			// longer be loaded and every later action on it (stopping a live run
			// included) is answered with an error
			os.WriteFile(file, []byte(defText(w.h.Dir, i, running)), 0o644)
			return fmt.Sprintf("%s: a definition that cannot be loaded was accepted and stored by `save`", desc)
		}
		for _, k := range d {
			if k != "~def:"+name {
				return fmt.Sprintf("%s: save changed more than the DAG's own definition: %v", desc, d)
			}
		}
		os.WriteFile(file, []byte(defText(w.h.Dir, i, running)), 0o644)
		return ""
	}
	return ""
}

func ok(b bool) bool { return b }

func trunc(s string, n int) string {
	if len(s) > n {
		return s[:n] + "…"
	}
	return s
}

// runOps executes the case in a fresh world; it returns the first non-empty
// verdict of an op ("" if none) and the world (closed by the caller).
func runOps(t rep.Fataler, c *Case) (string, *world) {
	w, err := newWorld(c)
	if err != nil {
		t.Fatalf("world: %v", err)
	}
	for i, o := range c.Ops {
		if msg := w.apply(c, i, o); msg != "" {
			return msg, w
		}
	}
	return "", w
}

func check(t rep.Fataler, c Case) {
	rep.Begin(ID, "api", c)
	snap := agentkit.EnvSnapshot()
	defer agentkit.RestoreEnv(snap)
	msg, w := runOps(t, &c)
	defer func() { w.close() }()
	live := false
	for _, o := range c.Ops {
		if o.Kind == "bg" || o.Kind == "bgfail" {
			live = true
		}
	}
	if msg != "" && live && !strings.HasPrefix(msg, "harness") {
		// A case with a run in progress depends on real time (the live agent answers
		// on its socket, writes its status on its own): a verdict has to show up on an
		// identical second execution before it is reported; otherwise it is
		// inconclusive, with the message.
		w.close()
		first := msg
		agentkit.RestoreEnv(snap)
		msg, w = runOps(t, &c)
		if msg == "" {
			rep.Inconclusive("observed once, not on an identical second execution (timing of the live run): " + first)
			return
		}
	}
	if strings.HasPrefix(msg, "harness-inconclusive:") {
		rep.Inconclusive(msg)
		return
	}
	if strings.HasPrefix(msg, "harness:") {
		t.Fatalf("%s", msg)
	}
	if msg != "" {
		rep.Fail(t, ID, "api", c, nil, "%s", msg)
	}
	states := 0
	var ls []string
	for l := range w.labels {
		ls = append(ls, l)
		if strings.HasPrefix(l, "state:") {
			states++
		}
	}
	key := ""
	if states >= 2 && w.refused >= 1 && w.accepted >= 1 {
		key = rep.Hash(c)
	}
	rep.Eval(key, ls...)
	if key != "" && rep.WantSample() {
		rep.Sample(map[string]any{"ops": c.Ops, "states": ls, "refused": w.refused, "accepted": w.accepted})
	}
}

func TestProp(t *testing.T) {
	if os.Getenv("VERIF_TOOL_FAKEEXE") == "" {
		t.Fatal("VERIF_TOOL_FAKEEXE not set")
	}
	rapid.Check(t, func(t *rapid.T) { check(t, gen(t)) })
}

func TestReplay(t *testing.T) {
	p := rep.ReplayPath()
	if p == "" {
		t.Skip("no VERIF_REPLAY")
	}
	cf, err := rep.LoadCase(p)
	if err != nil {
		t.Fatal(err)
	}
	var c Case
	if err := json.Unmarshal(cf.Case, &c); err != nil {
		t.Fatal(err)
	}
	check(t, c)
}
