// C19 — listing, viewing and validating a DAG has no side effects.
package c19

import (
	"encoding/json"
	"fmt"
	"os"
	"path/filepath"
	"regexp"
	"sort"
	"strings"
	"testing"

	"github.com/ErdemOzgen/blackdagger/internal/client"
	"github.com/ErdemOzgen/blackdagger/internal/config"
	"github.com/ErdemOzgen/blackdagger/internal/dag"
	"github.com/ErdemOzgen/blackdagger/internal/frontend/gen/restapi/operations/dags"
	"github.com/ErdemOzgen/blackdagger/internal/persistence"
	dsclient "github.com/ErdemOzgen/blackdagger/internal/persistence/client"
	"github.com/ErdemOzgen/blackdagger/internal/scheduler"
	"github.com/ErdemOzgen/blackdagger/verifharness/rep"
	"github.com/ErdemOzgen/blackdagger/verifharness/sim"
	"github.com/ErdemOzgen/blackdagger/verifharness/yamlgen"
	"pgregory.net/rapid"
)

const ID = "C19"

func TestMain(m *testing.M) { rep.Main(m, ID) }

// Case: a definition (Choice) with a canary planted in the listed fields,
// loaded through one entry point (or all when Entry == "").
type Case struct {
	Choice yamlgen.Choice `json:"choice"`
	Fields []string       `json:"fields"`
	Kind   int            `json:"kind"` // 0: backtick command substitution (whole value), 1: appended to the default value, 2: ${VAR} reference, 3: forward env reference + substitution, 4/5: substitution embedded in an unquoted token (alone / appended as NAME=pre-`cmd`.suf), 6: quoted argument + substitution outside the quotes, 7: assigning expansion ${NAME:=word}
	Entry  string         `json:"entry,omitempty"`
}

type envT struct {
	root   string
	dags   string
	file   string
	stores persistence.DataStores
	cli    client.Client
}

func newEnv() *envT {
	root, err := os.MkdirTemp(sim.ScratchRoot(), "vc19")
	if err != nil {
		panic(err)
	}
	e := &envT{root: root, dags: filepath.Join(root, "dags")}
	_ = os.MkdirAll(e.dags, 0o755)
	e.file = filepath.Join(e.dags, "canary.yaml")
	e.stores = dsclient.NewDataStores(e.dags, filepath.Join(root, "data"), filepath.Join(root, "suspend"), dsclient.DataStoreOptions{})
	e.cli = client.New(e.stores, "/bin/false", root, sim.Quiet)
	return e
}

func (e *envT) canaryPath(i int) string { return filepath.Join(e.root, fmt.Sprintf("canary_%d", i)) }

func (e *envT) canaries() []string {
	m, _ := filepath.Glob(filepath.Join(e.root, "canary_*"))
	return m
}

type entry struct {
	name string
	f    func(e *envT, data []byte)
}

var one int64 = 1

// entries: every non-executing way a definition gets loaded.
var entries = []entry{
	{"dag.LoadYAML", func(e *envT, data []byte) { _, _ = dag.LoadYAML(data) }},
	{"dag.LoadMetadata", func(e *envT, data []byte) { _, _ = dag.LoadMetadata(e.file) }},
	{"dag.LoadWithoutEval", func(e *envT, data []byte) { _, _ = dag.LoadWithoutEval(e.file) }},
	{"DAGStore.UpdateSpec", func(e *envT, data []byte) { _ = e.stores.DAGStore().UpdateSpec("canary", data) }},
	{"DAGStore.GetDetails", func(e *envT, data []byte) { _, _ = e.stores.DAGStore().GetDetails("canary") }},
	{"DAGStore.GetMetadata", func(e *envT, data []byte) { _, _ = e.stores.DAGStore().GetMetadata("canary") }},
	{"DAGStore.GetSpec", func(e *envT, data []byte) { _, _ = e.stores.DAGStore().GetSpec("canary") }},
	{"DAGStore.List", func(e *envT, data []byte) { _, _, _ = e.stores.DAGStore().List() }},
	{"DAGStore.ListPagination", func(e *envT, data []byte) {
		_, _ = e.stores.DAGStore().ListPagination(persistence.DAGListPaginationArgs{Page: 1, Limit: 10})
	}},
	{"DAGStore.Grep", func(e *envT, data []byte) { _, _, _ = e.stores.DAGStore().Grep("touch|echo|step") }},
	{"DAGStore.Find", func(e *envT, data []byte) { _, _ = e.stores.DAGStore().Find("canary") }},
	{"DAGStore.TagList", func(e *envT, data []byte) { _, _, _ = e.stores.DAGStore().TagList() }},
	{"client.GetStatus", func(e *envT, data []byte) { _, _ = e.cli.GetStatus("canary") }},
	{"client.GetAllStatus", func(e *envT, data []byte) { _, _, _ = e.cli.GetAllStatus() }},
	{"client.GetAllStatusPagination", func(e *envT, data []byte) {
		_, _, _ = e.cli.GetAllStatusPagination(dags.ListDagsParams{Page: &one, Limit: &one})
	}},
	{"client.Grep", func(e *envT, data []byte) { _, _, _ = e.cli.Grep("canary") }},
	{"client.GetTagList", func(e *envT, data []byte) { _, _, _ = e.cli.GetTagList() }},
	{"daemon.initial-read", func(e *envT, data []byte) {
		_ = scheduler.New(&config.Config{DAGs: e.dags, WorkDir: e.root, Executable: "/bin/false", LogDir: filepath.Join(e.root, "log")}, sim.Quiet, e.cli)
	}},
}

func environ() []string {
	ev := os.Environ()
	sort.Strings(ev)
	return ev
}

func envDiff(before, after []string) string {
	b := map[string]bool{}
	for _, x := range before {
		b[x] = true
	}
	a := map[string]bool{}
	for _, x := range after {
		a[x] = true
	}
	var d []string
	for _, x := range after {
		if !b[x] {
			d = append(d, "+"+trunc(x))
		}
	}
	for _, x := range before {
		if !a[x] {
			d = append(d, "-"+trunc(x))
		}
	}
	return strings.Join(d, " ")
}

func trunc(s string) string {
	if len(s) > 80 {
		return s[:80] + "…"
	}
	return s
}

func restoreEnv(before []string) {
	want := map[string]string{}
	for _, kv := range before {
		if i := strings.IndexByte(kv, '='); i > 0 {
			want[kv[:i]] = kv[i+1:]
		}
	}
	for _, kv := range os.Environ() {
		if i := strings.IndexByte(kv, '='); i > 0 {
			if _, ok := want[kv[:i]]; !ok {
				os.Unsetenv(kv[:i])
			}
		}
	}
	for k, v := range want {
		if os.Getenv(k) != v {
			os.Setenv(k, v)
		}
	}
}

// render builds the YAML text with canaries in the chosen fields.
func render(e *envT, c Case) []byte {
	idx := map[string]int{}
	for i, f := range c.Fields {
		idx[f] = i
	}
	m := yamlgen.Build(c.Choice, func(field, def string) string {
		i, ok := idx[field]
		if !ok {
			return def
		}
		switch c.Kind {
		case 0:
			return "`touch " + e.canaryPath(i) + "`"
		case 1:
			return def + " `touch " + e.canaryPath(i) + "`"
		case 2:
			return def + "${VERIF_CANARY_REF}"
		case 6:
			// a quoted argument next to a substitution outside the quotes (a
			// shell-words style splitter that honours backticks would run it)
			return def + " \"quoted arg\" `touch " + e.canaryPath(i) + "` 'single'"
		case 7:
			// the ASSIGNING expansion form: a loader that implements ${NAME:=word}
			// exports NAME when it is unset — the name is deliberately not planted
			return def + fmt.Sprintf("${VERIF_UNSET_%d:=leak}", i) + fmt.Sprintf(" ${VERIF_UNSET_%d:-dflt}", i+100)
		case 4, 5:
			// a substitution EMBEDDED in an unquoted token (report-`cmd`.csv): the
			// command is a blank-free path to a script that leaves the canary
			script := filepath.Join(e.root, fmt.Sprintf("script_%d.sh", i))
			_ = os.WriteFile(script, []byte("#!/bin/sh\ntouch "+e.canaryPath(i)+"\n"), 0o755)
			if c.Kind == 4 {
				return "report-`" + script + "`.csv"
			}
			return def + " VERIF_K=report-`" + script + "`.csv"
		default:
			// a reference to a key that the same env block defines further
			// down (or at all), next to a substitution: resolving entries in
			// dependency order needs a second pass over the block
			return "${" + laterEnvKey(c.Choice, field) + "}" + def + " `touch " + e.canaryPath(i) + "`"
		}
	})
	return yamlgen.Marshal(m)
}

var envKeyRe = regexp.MustCompile(`GEN_ENV_(\d+)$`)

// laterEnvKey names an env key of the definition declared after the field's
// own entry (cyclically), or the last one for fields outside the env block.
func laterEnvKey(ch yamlgen.Choice, field string) string {
	n := ch.NEnv
	if n <= 0 || ch.EnvForm == 0 {
		return "VERIF_CANARY_REF"
	}
	if m := envKeyRe.FindStringSubmatch(field); m != nil {
		var i int
		fmt.Sscanf(m[1], "%d", &i)
		return fmt.Sprintf("GEN_ENV_%d", (i+1)%n)
	}
	return fmt.Sprintf("GEN_ENV_%d", n-1)
}

var identRe = regexp.MustCompile(`[A-Za-z_][A-Za-z0-9_]*`)

// plantSentinels pre-populates the environment with every identifier the
// definition mentions (env keys, parameter names, output names, referenced
// variables …) and with the positional names 1..9, so that a non-executing
// load that overwrites OR deletes one of them is visible in the environment
// diff. Names that already exist (PATH, HOME …) are left alone.
func plantSentinels(data []byte) {
	for i := 1; i <= 9; i++ {
		k := fmt.Sprint(i)
		if _, ok := os.LookupEnv(k); !ok {
			os.Setenv(k, "verif-sentinel-positional-"+k)
		}
	}
	seen := map[string]bool{}
	for _, id := range identRe.FindAllString(string(data), -1) {
		if seen[id] || len(id) > 40 || strings.HasPrefix(id, "VERIF_UNSET_") {
			continue
		}
		seen[id] = true
		if _, ok := os.LookupEnv(id); !ok {
			os.Setenv(id, "verif-sentinel:"+id)
		}
	}
}

// runOne loads the definition through one entry point and judges.
func runOne(e *envT, c Case, ent entry) string {
	for _, f := range e.canaries() {
		os.Remove(f)
	}
	data := render(e, c)
	// the file on disk is what the store / daemon entry points read; UpdateSpec needs it to exist
	if err := os.WriteFile(e.file, data, 0o644); err != nil {
		return "harness: " + err.Error()
	}
	pristine := environ()
	plantSentinels(data)
	before := environ()
	func() {
		defer func() { _ = recover() }() // crashes are C13's business
		ent.f(e, data)
	}()
	after := environ()
	var msg string
	if cs := e.canaries(); len(cs) > 0 {
		var fs []string
		for _, p := range cs {
			var i int
			fmt.Sscanf(filepath.Base(p), "canary_%d", &i)
			if i < len(c.Fields) {
				fs = append(fs, c.Fields[i])
			}
		}
		msg = fmt.Sprintf("%s executed the command substitution planted in field(s) %v", ent.name, fs)
	} else if d := envDiff(before, after); d != "" {
		msg = fmt.Sprintf("%s altered the environment of the loading process: %s", ent.name, d)
	}
	restoreEnv(pristine)
	return msg
}

// positive control: the evaluating loader does run the substitution / export
// the variables for env and params fields (non-vacuity of the oracle).
func positiveControl(e *envT, c Case) (ran bool, exported bool) {
	for _, f := range e.canaries() {
		os.Remove(f)
	}
	data := render(e, c)
	_ = os.WriteFile(e.file, data, 0o644)
	before := environ()
	func() {
		defer func() { _ = recover() }()
		_, _ = dag.Load("", e.file, "")
	}()
	ran = len(e.canaries()) > 0
	exported = envDiff(before, environ()) != ""
	restoreEnv(before)
	for _, f := range e.canaries() {
		os.Remove(f)
	}
	return
}

var shared *envT

func env() *envT {
	if shared == nil {
		shared = newEnv()
	}
	return shared
}

func evalCase(t rep.Fataler, c Case, sub string, counted bool) {
	e := env()
	for _, ent := range entries {
		if c.Entry != "" && c.Entry != ent.name {
			continue
		}
		if msg := runOne(e, c, ent); msg != "" {
			cc := c
			cc.Entry = ent.name
			rep.Fail(t, ID, sub, cc, map[string]any{"yaml": string(render(e, c))}, "%s", msg)
		}
		lab := []string{"entry:" + ent.name, fmt.Sprintf("kind:%d", c.Kind)}
		if counted {
			rep.EvalCounted(true, lab...)
		} else {
			rep.Eval(rep.Hash(map[string]any{"c": c, "e": ent.name}), lab...)
		}
	}
}

// maximal choices covering every optional block and every form.
func maximalChoices() []yamlgen.Choice {
	base := yamlgen.Choice{Crons: []string{"0 1 * * *", "0 2 * * *", "0 3 * * *"}, NEnv: 2, Params: `p1 A=1 B="two words"`, Handlers: 15,
		Functions: true, NSteps: 4, Deps: true, LogDir: true}
	var out []yamlgen.Choice
	for v := 0; v < 3; v++ {
		c := base
		c.ScheduleForm = v + 1
		c.EnvForm = v%2 + 1
		c.Extras = 255
		if v == 1 {
			c.Extras = 255 - 64
		}
		switch v {
		case 0:
			c.StepKinds = []int{0, 1, 2, 3}
		case 1:
			c.StepKinds = []int{4, 5, 2, 0}
		default:
			c.Functions = false
			c.StepKinds = []int{6, 3, 1, 4}
		}
		out = append(out, c)
	}
	return out
}

// TestCatalogue is exhaustive over (field of the catalogue) x (entry point) x
// (canary kind) for the maximal definitions.
func TestCatalogue(t *testing.T) {
	shard, nsh := rep.EnvInt("VERIF_SHARD", 0), rep.EnvInt("VERIF_NSHARDS", 1)
	i := 0
	nFields := map[string]bool{}
	for _, ch := range maximalChoices() {
		for _, f := range yamlgen.Fields(ch) {
			nFields[f] = true
			for kind := 0; kind < 8; kind++ {
				i++
				if i%nsh != shard {
					continue
				}
				evalCase(t, Case{Choice: ch, Fields: []string{f}, Kind: kind}, "catalogue", true)
			}
		}
	}
	// non-vacuity: the evaluating loader does execute / export for env, params and logDir canaries
	e := env()
	ch := maximalChoices()[0]
	for _, f := range []string{"env.GEN_ENV_0", "params", "logDir"} {
		ran, exported := positiveControl(e, Case{Choice: ch, Fields: []string{f}, Kind: 0})
		if !ran {
			t.Fatalf("positive control failed: dag.Load did not execute the substitution planted in %s — the canary oracle would be vacuous", f)
		}
		_ = exported
	}
	if _, exported := positiveControl(e, Case{Choice: ch, Fields: nil, Kind: 2}); !exported {
		t.Fatalf("positive control failed: dag.Load exported no variable — the environment oracle would be vacuous")
	}
	rep.Label("positive-control-ok")
	if shard == 0 {
		rep.ExhaustiveSpace(fmt.Sprintf("catalogue of %d string-valued fields x %d entry points x 8 canary kinds over 3 maximal definitions", len(nFields), len(entries)))
		rep.Sample(map[string]any{"field": "steps[0].preconditions[0].condition", "entry": "DAGStore.UpdateSpec", "yaml": string(render(e, Case{Choice: ch, Fields: []string{"steps[0].preconditions[0].condition"}, Kind: 0}))[:600]})
	}
}

func TestProp(t *testing.T) {
	rapid.Check(t, func(t *rapid.T) {
		ch := yamlgen.GenChoice(t)
		fs := yamlgen.Fields(ch)
		n := rapid.IntRange(1, 5).Draw(t, "nFields")
		sel := rapid.Permutation(fs).Draw(t, "fieldPerm")
		if n > len(sel) {
			n = len(sel)
		}
		c := Case{Choice: ch, Fields: sel[:n], Kind: rapid.IntRange(0, 7).Draw(t, "kind")}
		c.Entry = rapid.SampledFrom(entries).Draw(t, "entry").name
		evalCase(t, c, "random", false)
	})
}

func TestReplay(t *testing.T) {
	p := rep.ReplayPath()
	if p == "" {
		t.Skip("no VERIF_REPLAY")
	}
	cf, err := rep.LoadCase(p)
	if err != nil {
		t.Fatal(err)
	}
	var c Case
	if err := json.Unmarshal(cf.Case, &c); err != nil {
		t.Fatal(err)
	}
	evalCase(t, c, cf.Sub, false)
}
