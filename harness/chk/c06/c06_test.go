// C06 — history queries return exactly what was recorded, per DAG.
// Model-based (stateful) property test of the real jsondb store.
package c06

import (
	"encoding/json"
	"fmt"
	"os"
	"path/filepath"
	"sort"
	"strings"
	"testing"
	"time"

	"github.com/ErdemOzgen/blackdagger/internal/dag"
	"github.com/ErdemOzgen/blackdagger/internal/dag/scheduler"
	"github.com/ErdemOzgen/blackdagger/internal/persistence/jsondb"
	"github.com/ErdemOzgen/blackdagger/internal/persistence/model"
	"github.com/ErdemOzgen/blackdagger/verifharness/rep"
	"github.com/ErdemOzgen/blackdagger/verifharness/sim"
	"pgregory.net/rapid"
)

const ID = "C06"

func TestMain(m *testing.M) { rep.Main(m, ID) }

// Op is one rule application; indices are resolved against the model at run
// time (construction instead of rejection), so the list is plain replayable data.
type Op struct {
	Kind    string `json:"kind"` // open write close update rename removeOld removeAll age
	Dag     int    `json:"dag"`
	Run     int    `json:"run,omitempty"`
	TimeSel int    `json:"timeSel,omitempty"`
	MS      int    `json:"ms,omitempty"`
	Payload int    `json:"payload,omitempty"`
	Days    int    `json:"days,omitempty"`
	AgeH    int    `json:"ageH,omitempty"`
	To      int    `json:"to,omitempty"`
}

type Case struct {
	Names       []string `json:"names"` // DAG file paths relative to the case's dags root
	LatestToday bool     `json:"latestToday"`
	Ops         []Op     `json:"ops"`
}

var namePool = []string{
	"a.yaml", "ab.yaml", "a.b.yaml", "x_c.yaml", "a b.yaml", "a[1].yaml", "a*.yaml", "a?b.yaml", `a\b.yaml`,
	"sub1/a.yaml", "sub2/a.yaml", "y.yml", "a_c.yaml", "a.1.yaml", "日本.yaml", "{a,b}.yaml", "a-b.yaml",
}

var renamePool = []string{"r1.yaml", "r 2.yaml", "r[3].yaml", "a_c_c.yaml", "ab.c.yaml", "sub1/r.yaml"}

func hostile(n string) bool {
	return strings.ContainsAny(n, `[]*?\ {}`) || strings.Count(n, ".") > 1 || strings.Contains(n, "_c") || strings.Contains(n, "/")
}

func gen(t *rapid.T) Case {
	c := Case{LatestToday: rapid.Bool().Draw(t, "latestToday")}
	nd := rapid.IntRange(2, 4).Draw(t, "nDags")
	perm := rapid.Permutation(namePool).Draw(t, "names")
	c.Names = append(c.Names, perm[:nd]...)
	maxOps := 25
	if rep.Thorough() {
		maxOps = 60
	}
	n := rapid.IntRange(1, maxOps).Draw(t, "nOps")
	for i := 0; i < n; i++ {
		k := rapid.SampledFrom([]string{"open", "open", "open", "write", "write", "close", "close", "update", "rename", "removeOld", "removeAll", "age", "openEmpty", "rewrite", "updateOpen", "retention", "retention", "close"}).Draw(t, "kind")
		c.Ops = append(c.Ops, Op{
			Kind: k, Dag: rapid.IntRange(0, nd-1).Draw(t, "dag"), Run: rapid.IntRange(0, 5).Draw(t, "run"),
			TimeSel: rapid.SampledFrom([]int{0, 1, 2, 3, 4, 5, 0, 1, 2, 3, 4, 5, 6}).Draw(t, "timeSel"), MS: rapid.IntRange(0, 999).Draw(t, "ms"),
			Payload: rapid.IntRange(0, 7).Draw(t, "payload"), Days: rapid.IntRange(0, 4).Draw(t, "days"),
			AgeH: rapid.SampledFrom([]int{2, 12, 22, 26, 47, 50, 71, 74, 100}).Draw(t, "ageH"),
			To:   rapid.IntRange(0, len(renamePool)-1).Draw(t, "to"),
		})
	}
	return c
}

// ---------------------------------------------------------------- model

type mrun struct {
	req    string
	start  time.Time
	last   string // JSON of the last status written
	open   bool
	w      *jsondb.JSONDB
	mtime  time.Time
	nwrite int
	lastW  *model.Status // the last status written through the run's own writer
}

type world struct {
	root   string
	names  []string // current name (path) per DAG slot; "" = none
	runs   map[int][]*mrun
	reader *jsondb.JSONDB
	data   string
	now    time.Time
	seq    int
	latest bool
	dbs    []*jsondb.JSONDB
}

func (w *world) loc(i int) string { return filepath.Join(w.root, "dags", w.names[i]) }

func payload(req, name string, variant, seq int) *model.Status {
	st := &model.Status{
		RequestID: req, Name: name, PID: model.PID(1000 + seq),
		Status: scheduler.Status(seq % 5), StartedAt: "2024-01-01T00:00:00Z", FinishedAt: "-",
		Log: fmt.Sprintf("/logs/agent.%d.log", seq), Params: fmt.Sprintf("seq=%d", seq),
	}
	st.StatusText = st.Status.String()
	switch variant {
	case 1:
		st.Params = "a \"b c\" X=\"1 2\"\nnewline 'q' \\ $HOME `x`"
	case 2, 3: // long lines: beyond the 4096-byte reader buffer
		n := 3000 * variant
		st.Nodes = []*model.Node{{Step: dag.Step{Name: "big", Description: strings.Repeat("d", n)}, Log: strings.Repeat("L", n/2), StatusText: "finished", Status: scheduler.NodeStatusSuccess}}
	case 4:
		for i := 0; i < 5; i++ {
			st.Nodes = append(st.Nodes, &model.Node{Step: dag.Step{Name: fmt.Sprintf("s%d", i), Command: "echo", Args: []string{"a b", "\"q\""}}, Status: scheduler.NodeStatus(i % 6), RetryCount: i, Error: "e\n\"x\""})
		}
	case 5:
		st.Name = "名前 \"quoted\"\t"
		st.OnExit = &model.Node{Step: dag.Step{Name: "onExit"}, StatusText: "finished"}
	}
	st.Log += fmt.Sprintf(" seq=%d", seq)
	return st
}

func js(st *model.Status) string {
	b, err := st.ToJSON()
	if err != nil {
		return "ERR:" + err.Error()
	}
	return string(b)
}

func (w *world) startTime(o Op) time.Time {
	ms := time.Duration(o.MS) * time.Millisecond
	midnight := time.Date(w.now.Year(), w.now.Month(), w.now.Day(), 0, 0, 0, 0, w.now.Location())
	var t time.Time
	switch o.TimeSel {
	case 0: // within the same second as "now"
		t = w.now.Truncate(time.Second).Add(-time.Second).Add(ms)
	case 1: // same minute
		t = w.now.Truncate(time.Minute).Add(-time.Minute).Add(time.Duration(o.MS%60)*time.Second + ms)
	case 2: // just before midnight (yesterday)
		t = midnight.Add(-time.Second).Add(ms)
	case 3: // just after midnight (today)
		t = midnight.Add(ms)
	case 4: // days apart
		t = w.now.AddDate(0, 0, -1-o.MS%5).Add(-ms)
	case 6: // dated tomorrow (a run started by a host whose clock is ahead)
		return midnight.Add(24*time.Hour + time.Duration(o.MS%3)*time.Hour).Add(ms).Truncate(time.Millisecond)
	default: // a fixed same-second cluster a few hours ago
		t = w.now.Truncate(time.Hour).Add(-3 * time.Hour).Add(ms)
	}
	if t.After(w.now) {
		t = w.now.Add(-ms)
	}
	return t.Truncate(time.Millisecond)
}

type failure struct{ msg string }

func fail(format string, a ...any) *failure { return &failure{fmt.Sprintf(format, a...)} }

// apply executes one op on the real store and the model.
func (w *world) apply(o Op, labels map[string]bool) *failure {
	d := o.Dag % len(w.names)
	runs := w.runs[d]
	var openRuns, closedRuns []*mrun
	for _, r := range runs {
		if r.open {
			openRuns = append(openRuns, r)
		} else {
			closedRuns = append(closedRuns, r)
		}
	}
	switch o.Kind {
	case "open":
		if len(openRuns) > 0 {
			return nil // one active run per DAG (C16)
		}
		w.seq++
		req := fmt.Sprintf("%08x-req-%d", 0x1000+w.seq*7919, w.seq) // unique in the first 8 characters
		st := w.startTime(o)
		db := w.newDB()
		if err := db.Open(w.loc(d), st, req); err != nil {
			return fail("Open(%q) failed: %v", w.loc(d), err)
		}
		p := payload(req, w.names[d], o.Payload, w.seq)
		if err := db.Write(p); err != nil {
			return fail("first Write failed: %v", err)
		}
		if o.TimeSel == 6 {
			labels["future-dated-run(clock skew)"] = true
		}
		for _, r := range runs {
			if d := r.start.Sub(st); d > -time.Second && d < time.Second {
				labels["runs-within-one-second"] = true
			}
		}
		w.runs[d] = append(runs, &mrun{req: req, start: st, last: js(p), open: true, w: db, mtime: w.now, nwrite: 1, lastW: p})
	case "openEmpty":
		// a run file that never received a status (opened and closed without a
		// write): it records nothing and must not hide what was recorded.
		if len(openRuns) > 0 {
			return nil
		}
		w.seq++
		req := fmt.Sprintf("%08x-req-%d", 0x1000+w.seq*7919, w.seq)
		db := w.newDB()
		if err := db.Open(w.loc(d), w.startTime(o), req); err != nil {
			return fail("Open(%q) failed: %v", w.loc(d), err)
		}
		_ = db.Close() // compaction of an empty file may report an error; nothing was recorded
		labels["run-file-without-status"] = true
	case "write":
		if len(openRuns) == 0 {
			return nil
		}
		r := openRuns[o.Run%len(openRuns)]
		w.seq++
		p := payload(r.req, w.names[d], o.Payload, w.seq)
		if err := r.w.Write(p); err != nil {
			return fail("Write failed: %v", err)
		}
		r.last, r.nwrite, r.lastW = js(p), r.nwrite+1, p
		labels["write-interleaved-with-reads"] = true
	case "rewrite":
		// the run reports the very same status again (nothing changed between two
		// of its writes): still the last thing recorded
		if len(openRuns) == 0 {
			return nil
		}
		r := openRuns[o.Run%len(openRuns)]
		if err := r.w.Write(r.lastW); err != nil {
			return fail("Write failed: %v", err)
		}
		r.last, r.nwrite = js(r.lastW), r.nwrite+1
		labels["identical-status-rewritten"] = true
	case "updateOpen":
		// a manual status update that lands while the run's own writer is open
		// (a run whose process is gone but was never closed, or a racing edit)
		if len(openRuns) == 0 {
			return nil
		}
		r := openRuns[o.Run%len(openRuns)]
		w.seq++
		p := payload(r.req, w.names[d], o.Payload, w.seq)
		if err := w.reader.Update(w.loc(d), r.req, p); err != nil {
			return fail("Update(%q,%s) of an open run failed: %v", w.loc(d), r.req, err)
		}
		r.last = js(p)
		labels["update-of-open-run"] = true
	case "close":
		if len(openRuns) == 0 {
			return nil
		}
		r := openRuns[o.Run%len(openRuns)]
		if err := r.w.Close(); err != nil {
			return fail("Close failed: %v", err)
		}
		r.open, r.w = false, nil
	case "update":
		if len(closedRuns) == 0 {
			return nil
		}
		r := closedRuns[o.Run%len(closedRuns)]
		w.seq++
		p := payload(r.req, w.names[d], o.Payload, w.seq)
		if err := w.reader.Update(w.loc(d), r.req, p); err != nil {
			return fail("Update(%q,%s) of a recorded run failed: %v", w.loc(d), r.req, err)
		}
		r.last, r.mtime = js(p), w.now
		labels["update"] = true
	case "rename":
		if len(openRuns) > 0 || filepath.Ext(w.names[d]) != ".yaml" {
			return nil
		}
		to := renamePool[o.To%len(renamePool)]
		for _, n := range w.names {
			if n == to {
				return nil
			}
		}
		oldLoc := w.loc(d)
		w.names[d] = to
		if err := w.reader.Rename(oldLoc, w.loc(d)); err != nil {
			return fail("Rename failed: %v", err)
		}
		if len(runs) > 0 {
			labels["rename-with-history"] = true
		}
	case "age":
		if len(closedRuns) == 0 {
			return nil
		}
		r := closedRuns[o.Run%len(closedRuns)]
		sf, err := w.reader.FindByRequestID(w.loc(d), r.req)
		if err != nil {
			return fail("FindByRequestID(%q,%s) before ageing: %v", w.loc(d), r.req, err)
		}
		mt := w.now.Add(-time.Duration(o.AgeH) * time.Hour)
		if err := os.Chtimes(sf.File, mt, mt); err != nil {
			return fail("chtimes: %v", err)
		}
		r.mtime = mt
	case "removeOld":
		if len(openRuns) > 0 {
			return nil // the agent runs retention before it opens its own run
		}
		if err := w.reader.RemoveOld(w.loc(d), o.Days); err != nil {
			return fail("RemoveOld failed: %v", err)
		}
		cut := w.now.AddDate(0, 0, -o.Days)
		var keep []*mrun
		for _, r := range runs {
			if o.Days == 0 || r.mtime.Before(cut) {
				labels["retention-removed-a-run"] = true
				continue
			}
			keep = append(keep, r)
		}
		if len(keep) > 0 && len(keep) < len(runs) {
			labels["retention-partial"] = true
		}
		w.runs[d] = keep
	case "retention":
		// every finished run of the DAG gets an age of its own (file modification
		// time: 0 h … 200 h, not related to the order in which the runs started —
		// an old run updated today, a recent run untouched for days), then the
		// retention pass with a positive period runs
		if len(openRuns) > 0 || len(closedRuns) < 2 {
			return nil
		}
		ages := []int{0, 30, 80, 200, 10, 60}
		for i, r := range closedRuns {
			sf, err := w.reader.FindByRequestID(w.loc(d), r.req)
			if err != nil {
				return fail("FindByRequestID(%q,%s) before ageing: %v", w.loc(d), r.req, err)
			}
			mt := w.now.Add(-time.Duration(ages[(i*5+o.Payload+o.Run)%len(ages)]) * time.Hour)
			if err := os.Chtimes(sf.File, mt, mt); err != nil {
				return fail("chtimes: %v", err)
			}
			r.mtime = mt
		}
		days := 1 + o.Days%3
		if err := w.reader.RemoveOld(w.loc(d), days); err != nil {
			return fail("RemoveOld failed: %v", err)
		}
		cut := w.now.AddDate(0, 0, -days)
		var keep []*mrun
		for _, r := range runs {
			if r.mtime.Before(cut) {
				labels["retention-removed-a-run"] = true
				continue
			}
			keep = append(keep, r)
		}
		if len(keep) > 0 && len(keep) < len(runs) {
			labels["retention-partial"] = true
		}
		labels["retention-on-unordered-ages"] = true
		w.runs[d] = keep
	case "removeAll":
		if len(openRuns) > 0 {
			return nil
		}
		if err := w.reader.RemoveAll(w.loc(d)); err != nil {
			return fail("RemoveAll failed: %v", err)
		}
		w.runs[d] = nil
	}
	return nil
}

func sameJSON(a, b string) bool {
	var x, y any
	if json.Unmarshal([]byte(a), &x) != nil || json.Unmarshal([]byte(b), &y) != nil {
		return a == b
	}
	xb, _ := json.Marshal(x)
	yb, _ := json.Marshal(y)
	return string(xb) == string(yb)
}

// newDB creates a store instance (a process of its own, in the model) and
// remembers it: its cache eviction goroutine is ended with the case.
func (w *world) newDB() *jsondb.JSONDB {
	db := jsondb.New(w.data, w.latest)
	w.dbs = append(w.dbs, db)
	return db
}

func (w *world) stopDBs() {
	for _, db := range w.dbs {
		db.VerifStop()
	}
	w.dbs = nil
}

// verify runs the full query set on every DAG through the long-lived reader
// and through a fresh instance.
func (w *world) verify(step int) *failure {
	fresh := jsondb.New(w.data, w.latest)
	defer fresh.VerifStop()
	for _, db := range []struct {
		n string
		s *jsondb.JSONDB
	}{{"reader", w.reader}, {"fresh", fresh}} {
		for d := range w.names {
			loc := w.loc(d)
			runs := append([]*mrun(nil), w.runs[d]...)
			sort.SliceStable(runs, func(i, j int) bool { return runs[i].start.After(runs[j].start) })
			byReq := map[string]*mrun{}
			for _, r := range runs {
				byReq[r.req] = r
			}
			// lookup by request id
			for _, r := range runs {
				sf, err := db.s.FindByRequestID(loc, r.req)
				if err != nil {
					return fail("[%s after op %d] FindByRequestID(%q, %s): recorded run not found: %v", db.n, step, w.names[d], r.req, err)
				}
				if !sameJSON(js(sf.Status), r.last) {
					return fail("[%s after op %d] FindByRequestID(%q, %s) returned %s, last recorded %s", db.n, step, w.names[d], r.req, trunc(js(sf.Status)), trunc(r.last))
				}
			}
			for _, r := range runs {
				// an id that was never recorded but shares the 8 characters the file name keeps
				if sf, err := db.s.FindByRequestID(loc, r.req[:8]+"-never-recorded"); err == nil {
					return fail("[%s after op %d] FindByRequestID(%q, %s-never-recorded) returned run %s although no run has that id", db.n, step, w.names[d], r.req[:8], sf.Status.RequestID)
				}
			}
			if _, err := db.s.FindByRequestID(loc, "ffffffff-unknown"); err == nil {
				return fail("[%s after op %d] FindByRequestID(%q, unknown id) returned a run", db.n, step, w.names[d])
			}
			for d2 := range w.names {
				if d2 == d {
					continue
				}
				for _, r := range w.runs[d2] {
					if sf, err := db.s.FindByRequestID(loc, r.req); err == nil {
						return fail("[%s after op %d] FindByRequestID(%q, %s) returned run %s that belongs to %q", db.n, step, w.names[d], r.req, sf.Status.RequestID, w.names[d2])
					}
				}
			}
			// recent history
			for _, n := range []int{1, 2, len(runs) + 3} {
				got := db.s.ReadStatusRecent(loc, n)
				want := n
				if want > len(runs) {
					want = len(runs)
				}
				if len(got) != want {
					return fail("[%s after op %d] ReadStatusRecent(%q, %d) returned %d runs, %d recorded (want %d)", db.n, step, w.names[d], n, len(got), len(runs), want)
				}
				seen := map[string]bool{}
				for i, sf := range got {
					r := byReq[sf.Status.RequestID]
					if r == nil {
						return fail("[%s after op %d] ReadStatusRecent(%q, %d)[%d] is run %s which is not a recorded run of this DAG", db.n, step, w.names[d], n, i, sf.Status.RequestID)
					}
					if seen[r.req] {
						return fail("[%s after op %d] ReadStatusRecent(%q, %d) returned run %s twice", db.n, step, w.names[d], n, r.req)
					}
					seen[r.req] = true
					if !r.start.Equal(runs[i].start) {
						return fail("[%s after op %d] ReadStatusRecent(%q, %d)[%d] is the run started %s, expected the run started %s (newest first)", db.n, step, w.names[d], n, i, r.start.Format("15:04:05.000"), runs[i].start.Format("2006-01-02 15:04:05.000"))
					}
					if !sameJSON(js(sf.Status), r.last) {
						return fail("[%s after op %d] ReadStatusRecent(%q, %d)[%d] status %s, last recorded %s", db.n, step, w.names[d], n, i, trunc(js(sf.Status)), trunc(r.last))
					}
				}
			}
			// latest status
			var cand []*mrun
			for _, r := range runs {
				if !w.latest || sameDay(r.start, w.now) {
					cand = append(cand, r)
				}
			}
			st, err := db.s.ReadStatusToday(loc)
			if len(cand) == 0 {
				if err == nil {
					return fail("[%s after op %d] ReadStatusToday(%q) returned run %s but no run qualifies (latestStatusToday=%v)", db.n, step, w.names[d], st.RequestID, w.latest)
				}
			} else {
				if err != nil {
					return fail("[%s after op %d] ReadStatusToday(%q) failed (%v) although %d run(s) qualify", db.n, step, w.names[d], err, len(cand))
				}
				r := byReq[st.RequestID]
				if r == nil || !r.start.Equal(cand[0].start) {
					return fail("[%s after op %d] ReadStatusToday(%q) returned run %s, expected the most recently started run %s (started %s)", db.n, step, w.names[d], st.RequestID, cand[0].req, cand[0].start.Format("15:04:05.000"))
				}
				if !sameJSON(js(st), r.last) {
					return fail("[%s after op %d] ReadStatusToday(%q) status %s, last recorded %s", db.n, step, w.names[d], trunc(js(st)), trunc(r.last))
				}
			}
		}
	}
	return nil
}

func trunc(s string) string {
	if len(s) > 160 {
		return s[:160] + "…"
	}
	return s
}

func sameDay(a, b time.Time) bool {
	return a.Year() == b.Year() && a.YearDay() == b.YearDay()
}

func run(c Case) (*failure, map[string]bool, bool) {
	labels := map[string]bool{}
	root, err := os.MkdirTemp(sim.ScratchRoot(), "vc06")
	if err != nil {
		return fail("mkdtemp: %v", err), labels, false
	}
	defer os.RemoveAll(root)
	w := &world{root: root, names: append([]string(nil), c.Names...), runs: map[int][]*mrun{}, data: filepath.Join(root, "data"),
		now: time.Now(), latest: c.LatestToday}
	w.reader = w.newDB()
	defer w.stopDBs()
	for i, o := range c.Ops {
		if f := w.apply(o, labels); f != nil {
			f.msg = fmt.Sprintf("op %d (%s): %s", i, o.Kind, f.msg)
			return f, labels, false
		}
		if f := w.verify(i); f != nil {
			if !sameDay(time.Now(), w.now) {
				return nil, labels, true // calendar date changed while the case ran: discard
			}
			return f, labels, false
		}
	}
	for _, rs := range w.runs {
		for _, r := range rs {
			if r.open {
				_ = r.w.Close()
			}
		}
	}
	nd := 0
	for _, rs := range w.runs {
		if len(rs) > 0 {
			nd++
		}
	}
	if nd >= 2 {
		labels["two-dags-with-runs"] = true
	}
	for _, n := range w.names {
		if hostile(n) {
			labels["hostile-name"] = true
		}
	}
	return nil, labels, false
}

func check(t rep.Fataler, c Case) {
	f, labels, discarded := run(c)
	if discarded {
		rep.Inconclusive("calendar date changed during the case")
		return
	}
	if f != nil {
		rep.Fail(t, ID, "store", c, nil, "%s", f.msg)
	}
	var ls []string
	for l := range labels {
		ls = append(ls, l)
	}
	sort.Strings(ls)
	key := ""
	if labels["two-dags-with-runs"] && (labels["runs-within-one-second"] || labels["hostile-name"] || labels["update"] || labels["rename-with-history"] || labels["retention-removed-a-run"] || labels["write-interleaved-with-reads"]) {
		key = rep.Hash(c)
	}
	rep.Eval(key, ls...)
	if key != "" && rep.WantSample() && len(c.Ops) <= 12 {
		rep.Sample(c)
	}
}

func TestProp(t *testing.T) {
	rapid.Check(t, func(t *rapid.T) { check(t, gen(t)) })
}

func TestReplay(t *testing.T) {
	p := rep.ReplayPath()
	if p == "" {
		t.Skip("no VERIF_REPLAY")
	}
	cf, err := rep.LoadCase(p)
	if err != nil {
		t.Fatal(err)
	}
	if cf.Sub == "held" {
		replayHeld(t, cf)
		return
	}
	var c Case
	if err := json.Unmarshal(cf.Case, &c); err != nil {
		t.Fatal(err)
	}
	for i := 0; i < rep.EnvInt("VERIF_REPLAY_REPS", 5); i++ {
		check(t, c)
	}
}
