// C06, stage "held" — a long-lived reader process (status cache and all) is held by the
// ptrace supervisor at a generated system call of its own reading (stat / open / read /
// getdents under the data directory), another process records something (a manual update of
// a closed run, or a whole new run) to completion, the reader is released and asks again.
// The harness owns the schedule: the hold point is a plain generated integer.
// Oracle: every query that STARTS after the other process has finished returns what is
// recorded now; every query that ended before returns the earlier answer; the query that
// was held may return either.
package c06

import (
	"encoding/json"
	"fmt"
	"os"
	"path/filepath"
	"strings"
	"testing"
	"time"

	"github.com/ErdemOzgen/blackdagger/internal/persistence/jsondb"
	"github.com/ErdemOzgen/blackdagger/internal/persistence/model"
	"github.com/ErdemOzgen/blackdagger/verifharness/crashkit"
	"github.com/ErdemOzgen/blackdagger/verifharness/rep"
	"github.com/ErdemOzgen/blackdagger/verifharness/sim"
	"pgregory.net/rapid"
)

type HCase struct {
	Name        string `json:"name"`
	LatestToday bool   `json:"latestToday"`
	NRuns       int    `json:"nRuns"`
	Target      int    `json:"target"` // run that is updated (0 = oldest)
	Query       string `json:"query"`  // recent | today | find
	Writer      string `json:"writer"` // update | newrun
	OldVariant  int    `json:"oldVariant"`
	NewVariant  int    `json:"newVariant"`
	Frac        int    `json:"frac"` // hold point = 1 + Frac*N/1000 of the reader's N counted calls
}

func genHeld(t *rapid.T) HCase {
	c := HCase{
		Name:        rapid.SampledFrom(namePool).Draw(t, "name"),
		LatestToday: rapid.Bool().Draw(t, "latestToday"),
		NRuns:       rapid.IntRange(1, 3).Draw(t, "nRuns"),
		Query:       rapid.SampledFrom([]string{"recent", "today", "find"}).Draw(t, "query"),
		Writer:      rapid.SampledFrom([]string{"update", "update", "newrun"}).Draw(t, "writer"),
		OldVariant:  rapid.IntRange(0, 5).Draw(t, "oldVariant"),
		NewVariant:  rapid.IntRange(0, 5).Draw(t, "newVariant"),
	}
	// rapid's integer generators favour small values; the hold point should be spread evenly
	// over the reader's calls, so the drawn value is scrambled (still a pure function of it)
	u := rapid.Uint64().Draw(t, "holdSel")
	u ^= u >> 30
	u *= 0xbf58476d1ce4e5b9
	u ^= u >> 27
	u *= 0x94d049bb133111eb
	u ^= u >> 31
	c.Frac = int(u % 1000)
	c.Target = rapid.IntRange(0, c.NRuns-1).Draw(t, "target")
	return c
}

type recOp struct {
	Kind   string          `json:"kind"`
	Dag    string          `json:"dag,omitempty"`
	Req    string          `json:"req,omitempty"`
	TimeMS int64           `json:"timeMS,omitempty"`
	Status json.RawMessage `json:"status,omitempty"`
	N      int             `json:"n,omitempty"`
}

type recScript struct {
	Data        string  `json:"data"`
	DAGs        string  `json:"dags"`
	LatestToday bool    `json:"latestToday"`
	Markers     bool    `json:"markers,omitempty"`
	Ops         []recOp `json:"ops"`
}

func reads(stdout string) map[int][]string {
	out := map[int][]string{}
	for _, l := range strings.Split(stdout, "\n") {
		var i int
		if !strings.HasPrefix(l, "READ ") {
			continue
		}
		f := strings.SplitN(l, " ", 3)
		if len(f) != 3 {
			continue
		}
		fmt.Sscanf(f[1], "%d", &i)
		var raw []json.RawMessage
		_ = json.Unmarshal([]byte(f[2]), &raw)
		ss := []string{}
		for _, r := range raw {
			ss = append(ss, string(r))
		}
		out[i] = ss
	}
	return out
}

func sameList(a, b []string) bool {
	if len(a) != len(b) {
		return false
	}
	for i := range a {
		if !sameJSON(a[i], b[i]) {
			return false
		}
	}
	return true
}

type heldObs struct {
	Counted int             `json:"counted"`
	HoldAt  int             `json:"holdAt"`
	HeldIn  int             `json:"heldInQuery"`
	Call    string          `json:"heldCall"`
	Reads   map[int][]string `json:"reads"`
}

func checkHeld(t rep.Fataler, c HCase) {
	rep.Begin(ID, "held", c)
	now := time.Now()
	if !sameDay(now.Add(-30*time.Second), now) || !sameDay(now.Add(60*time.Second), now) {
		rep.Inconclusive("too close to midnight")
		return
	}
	root, err := os.MkdirTemp(sim.ScratchRoot(), "vc06h")
	if err != nil {
		t.Fatalf("mkdtemp: %v", err)
	}
	defer os.RemoveAll(root)
	data, dags := filepath.Join(root, "data"), filepath.Join(root, "dags")
	_ = os.MkdirAll(data, 0o755)
	_ = os.MkdirAll(dags, 0o755)
	loc := filepath.Join(dags, c.Name)

	// recorded history: NRuns closed runs, oldest first, all of today
	db := jsondb.New(data, c.LatestToday)
	defer db.VerifStop()
	type mr struct {
		req  string
		last string
	}
	var runs []*mr
	for i := 0; i < c.NRuns; i++ {
		req := fmt.Sprintf("%08d-held", i+1)
		st := payload(req, c.Name, c.OldVariant, i+1)
		if err := db.Open(loc, now.Add(time.Duration(i-c.NRuns-1)*time.Second), req); err != nil {
			t.Fatalf("open: %v", err)
		}
		if err := db.Write(payload(req, c.Name, 0, 100+i)); err != nil {
			t.Fatalf("write: %v", err)
		}
		if err := db.Write(st); err != nil {
			t.Fatalf("write: %v", err)
		}
		if err := db.Close(); err != nil {
			t.Fatalf("close: %v", err)
		}
		runs = append(runs, &mr{req, js(st)})
	}
	// the other process's script and the reference answers before / after it
	var wops []recOp
	findReq := runs[c.Target].req
	after := make([]*mr, len(runs))
	copy(after, runs)
	var nst *model.Status
	switch c.Writer {
	case "update":
		nst = payload(findReq, c.Name, c.NewVariant, 50)
		wops = []recOp{{Kind: "update", Dag: loc, Req: findReq, Status: json.RawMessage(js(nst))}}
		after[c.Target] = &mr{findReq, js(nst)}
	default:
		findReq = "99999999-held"
		nst = payload(findReq, c.Name, c.NewVariant, 51)
		wops = []recOp{{Kind: "open", Dag: loc, Req: findReq, TimeMS: now.Add(time.Second).UnixMilli()},
			{Kind: "write", Status: json.RawMessage(js(nst))}, {Kind: "close"}}
		after = append(after, &mr{findReq, js(nst)})
	}
	answer := func(rs []*mr) []string {
		out := []string{}
		switch c.Query {
		case "recent":
			for i := len(rs) - 1; i >= 0; i-- {
				out = append(out, rs[i].last)
			}
		case "today":
			out = append(out, rs[len(rs)-1].last)
		case "find":
			for _, r := range rs {
				if r.req == findReq {
					out = append(out, r.last)
				}
			}
		}
		return out
	}
	before, afterAns := answer(runs), answer(after)

	q := recOp{Kind: c.Query, Dag: loc, Req: findReq, N: c.NRuns + 2}
	rs := recScript{Data: data, DAGs: dags, LatestToday: c.LatestToday, Markers: true, Ops: []recOp{q, q, q}}
	ws := recScript{Data: data, DAGs: dags, LatestToday: c.LatestToday, Ops: wops}
	rsp, wsp, wout := filepath.Join(root, "reader.json"), filepath.Join(root, "writer.json"), filepath.Join(root, "writer.out")
	b, _ := json.Marshal(rs)
	_ = os.WriteFile(rsp, b, 0o644)
	b, _ = json.Marshal(ws)
	_ = os.WriteFile(wsp, b, 0o644)
	tool := os.Getenv("VERIF_TOOL_RECORDER")

	// dry pass: how many calls does the reader make, and does it answer the earlier state?
	o := crashkit.Opts{Classes: "r", Prefixes: []string{data}, Env: os.Environ(), WantLog: true}
	dry, err := crashkit.Run(root, o, tool, rsp)
	if err != nil || dry.TimedOut || dry.Exit != 0 {
		rep.Inconclusive(fmt.Sprintf("dry pass failed: %v %+v", err, dry))
		return
	}
	dr := reads(dry.Stdout)
	for i := 0; i < 3; i++ {
		if !sameList(dr[i], before) {
			rep.Fail(t, ID, "held", c, heldObs{Counted: dry.Counted, Reads: dr}, "query %d (%s) of an undisturbed reader process returns %s, recorded: %s", i, c.Query, trunc(fmt.Sprint(dr[i])), trunc(fmt.Sprint(before)))
			return
		}
	}
	if dry.Counted < 6 {
		rep.Inconclusive(fmt.Sprintf("reader made only %d counted calls", dry.Counted))
		return
	}
	k := 1 + c.Frac*dry.Counted/1000
	if k > dry.Counted {
		k = dry.Counted
	}
	o.HoldAt = k
	o.HoldCmd = fmt.Sprintf("exec '%s' '%s' > '%s' 2>&1", tool, wsp, wout)
	held, err := crashkit.Run(root, o, tool, rsp)
	if err != nil || held.TimedOut || held.Exit != 0 {
		rep.Inconclusive(fmt.Sprintf("held pass failed: %v %+v", err, held))
		return
	}
	wb, _ := os.ReadFile(wout)
	if last, errs := crashkit.Acks(string(wb)); !strings.Contains(held.Note, "held") || last != len(wops)-1 || len(errs) > 0 {
		rep.EvalCounted(false, "hold-not-reached-or-writer-failed")
		rep.Note("held=%q writer=%q", held.Note, trunc(string(wb)))
		return
	}
	// which query was being answered at the hold point?
	heldIn, call := -1, ""
	for _, cl := range held.Calls {
		if cl.N > k {
			break
		}
		if i := strings.LastIndex(cl.Detail, "/.op"); i >= 0 {
			fmt.Sscanf(cl.Detail[i+4:], "%d", &heldIn)
		}
		if cl.N == k {
			call = cl.Name
			if strings.Contains(cl.Detail, "/.op") {
				call = "marker"
			}
		}
	}
	hr := reads(held.Stdout)
	obs := heldObs{Counted: held.Counted, HoldAt: k, HeldIn: heldIn, Call: call, Reads: hr}
	for i := 0; i < 3; i++ {
		switch {
		case i < heldIn:
			if !sameList(hr[i], before) {
				rep.Fail(t, ID, "held", c, obs, "query %d ended before the %s and returns %s, recorded then: %s", i, c.Writer, trunc(fmt.Sprint(hr[i])), trunc(fmt.Sprint(before)))
				return
			}
		case i > heldIn:
			if !sameList(hr[i], afterAns) {
				rep.Fail(t, ID, "held", c, obs, "query %d (%s) started after the %s by another process had returned (reader held at call %d/%d, a %s during query %d) and returns %s, recorded: %s",
					i, c.Query, c.Writer, k, held.Counted, call, heldIn, trunc(fmt.Sprint(hr[i])), trunc(fmt.Sprint(afterAns)))
				return
			}
		default:
			if !sameList(hr[i], before) && !sameList(hr[i], afterAns) {
				rep.Fail(t, ID, "held", c, obs, "query %d (%s), during which the %s happened, returns neither the earlier nor the later record: %s", i, c.Query, c.Writer, trunc(fmt.Sprint(hr[i])))
				return
			}
		}
	}
	// and a fresh process agrees with the record
	fresh := jsondb.New(data, c.LatestToday)
	defer fresh.VerifStop()
	var fr []string
	switch c.Query {
	case "recent":
		for _, sf := range fresh.ReadStatusRecent(loc, c.NRuns+2) {
			fr = append(fr, js(sf.Status))
		}
	case "today":
		if st, err := fresh.ReadStatusToday(loc); err == nil && st != nil {
			fr = append(fr, js(st))
		}
	case "find":
		if sf, err := fresh.FindByRequestID(loc, findReq); err == nil && sf != nil {
			fr = append(fr, js(sf.Status))
		}
	}
	if !sameList(fr, afterAns) {
		rep.Fail(t, ID, "held", c, obs, "fresh instance after the %s returns %s, recorded: %s", c.Writer, trunc(fmt.Sprint(fr)), trunc(fmt.Sprint(afterAns)))
		return
	}
	labels := []string{"writer:" + c.Writer, "query:" + c.Query, fmt.Sprintf("held-in-query:%d", heldIn), "held-at:" + call}
	if heldIn >= 1 {
		labels = append(labels, "warm-cache")
	}
	rep.EvalCounted(heldIn >= 0 && heldIn <= 1 && call != "marker", labels...)
	if rep.WantSample() {
		rep.Sample(map[string]any{"case": c, "holdAt": k, "counted": held.Counted, "heldInQuery": heldIn, "call": call})
	}
}

func TestHeld(t *testing.T) {
	if crashkit.Sysstop() == "" || os.Getenv("VERIF_TOOL_RECORDER") == "" {
		t.Fatal("VERIF_SYSSTOP / VERIF_TOOL_RECORDER not set")
	}
	rapid.Check(t, func(t *rapid.T) { checkHeld(t, genHeld(t)) })
}

func replayHeld(t *testing.T, cf *rep.CaseFile) {
	var c HCase
	if err := json.Unmarshal(cf.Case, &c); err != nil {
		t.Fatal(err)
	}
	for i := 0; i < rep.EnvInt("VERIF_REPLAY_REPS", 3); i++ {
		checkHeld(t, c)
	}
}
