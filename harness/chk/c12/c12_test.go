// C12 — a finished step's log holds everything the step printed.
// Real child processes (tools/emit) run by the real scheduler and the real
// command executor; the harness owns configuration, sizes, chunking and retry
// scripts and compares the files with the pattern the child was told to emit.
package c12

import (
	"bytes"
	"context"
	"encoding/json"
	"fmt"
	"os"
	"path/filepath"
	"strconv"
	"strings"
	"sync"
	"syscall"
	"testing"
	"time"

	"github.com/ErdemOzgen/blackdagger/internal/dag"
	"github.com/ErdemOzgen/blackdagger/internal/dag/scheduler"
	"github.com/ErdemOzgen/blackdagger/verifharness/pat"
	"github.com/ErdemOzgen/blackdagger/verifharness/rep"
	"github.com/ErdemOzgen/blackdagger/verifharness/sim"
	"pgregory.net/rapid"
)

const ID = "C12"

func TestMain(m *testing.M) { rep.Main(m, ID) }

// StepCfg configures one step.
type StepCfg struct {
	Name       string `json:"name"`
	Stdout     bool   `json:"stdout,omitempty"` // stdout: <file>
	Stderr     bool   `json:"stderr,omitempty"` // stderr: <file>
	SameFile   bool   `json:"sameFile,omitempty"` // stdout: and stderr: name the same file
	Output     bool   `json:"output,omitempty"` // output: OUT_<NAME>
	Script     bool   `json:"script,omitempty"` // command: sh + script: instead of a plain command
	RetryLimit int    `json:"retryLimit"`       // -1: no retry policy
	RetryIvUS  int    `json:"retryIvUS,omitempty"`
	FailFirst  int    `json:"failFirst,omitempty"` // emit fails its first k invocations
	OutN       int    `json:"outN"`
	ErrN       int    `json:"errN"`
	Chunk      int    `json:"chunk"`
}

// Case is one generated run.
type Case struct {
	Steps   []StepCfg `json:"steps"`
	Chain   bool      `json:"chain,omitempty"` // each step depends on the previous one (continueOn failure)
	Done    int       `json:"done,omitempty"`  // 0 nil, 1 prompt consumer, 2 slow consumer (as the agent's history write)
	PauseUS int       `json:"pauseUS"`
}

var sizes = []int{0, 1, 2, 100, 4095, 4096, 4097, 8191, 8192, 8193, 65535, 65536, 65537}

func genSize(t *rapid.T, label string) int {
	switch rapid.IntRange(0, 9).Draw(t, label+"Kind") {
	case 0, 1, 2, 3, 4:
		return rapid.SampledFrom(sizes).Draw(t, label)
	case 5, 6, 7:
		return rapid.IntRange(0, 20000).Draw(t, label+"Rnd")
	case 8:
		return rapid.IntRange(60000, 300000).Draw(t, label+"Big")
	default:
		if rep.Thorough() {
			return 1 << 20
		}
		return 131072
	}
}

func gen(t *rapid.T) Case {
	n := rapid.SampledFrom([]int{1, 1, 1, 2, 3}).Draw(t, "nSteps")
	c := Case{PauseUS: rapid.SampledFrom([]int{200, 1000}).Draw(t, "pauseUS"), Done: rapid.IntRange(0, 2).Draw(t, "done")}
	c.Chain = n > 1 && rapid.Bool().Draw(t, "chain")
	for i := 0; i < n; i++ {
		s := StepCfg{Name: string(rune('a' + i))}
		mask := rapid.IntRange(0, 15).Draw(t, "cfgMask")
		s.Stdout, s.Stderr, s.Output, s.Script = mask&1 != 0, mask&2 != 0, mask&4 != 0, mask&8 != 0
		s.SameFile = s.Stdout && s.Stderr && rapid.IntRange(0, 2).Draw(t, "sameFile") == 0
		s.RetryLimit = rapid.SampledFrom([]int{-1, 0, 1, 1, 2, 2}).Draw(t, "retryLimit")
		lim := max(s.RetryLimit, 0)
		s.FailFirst = rapid.IntRange(0, lim+1).Draw(t, "failFirst")
		if s.FailFirst > lim && rapid.Bool().Draw(t, "succeedInstead") {
			s.FailFirst = lim
		}
		s.RetryIvUS = rapid.SampledFrom([]int{0, 500, 3000}).Draw(t, "retryIv")
		switch rapid.IntRange(0, 3).Draw(t, "stream") {
		case 0:
			s.OutN = genSize(t, "outN")
		case 1:
			s.ErrN = genSize(t, "errN")
		default:
			s.OutN, s.ErrN = genSize(t, "outN"), genSize(t, "errN")
		}
		s.Chunk = rapid.SampledFrom([]int{0, 1000, 4096, 5000, 65536, 7}).Draw(t, "chunk")
		if s.Chunk == 7 && s.OutN+s.ErrN > 30000 {
			s.Chunk = 4096
		}
		// a capture beyond one environment string is kept only where nothing is
		// exec'ed afterwards in the run: the step is the last one (single step or
		// end of a chain) and is executed once
		if !((n == 1 || (c.Chain && i == n-1)) && s.FailFirst == 0) {
			clampCapture(&s)
		}
		c.Steps = append(c.Steps, s)
	}
	return c
}

// maxCapture bounds what an `output:` variable may receive: the captured
// value is exported as one environment string, which the OS limits to 128 KiB
// (a larger value makes every later exec fail with E2BIG — an OS limit, not a
// logging matter). Without a `stderr:` file the code also routes stderr into
// the capture, so both streams count.
const maxCapture = 120000

func captured(s *StepCfg) int {
	if !s.Output {
		return 0
	}
	n := s.OutN
	if !s.Stderr {
		n += s.ErrN
	}
	return n
}

func clampCapture(s *StepCfg) {
	for captured(s) > maxCapture {
		if s.OutN >= s.ErrN {
			s.OutN = s.OutN/2 + 1
		} else {
			s.ErrN = s.ErrN/2 + 1
		}
	}
}

// StepResult is what was observed for one step.
type StepResult struct {
	Status   string `json:"status"`
	Err      string `json:"err,omitempty"`
	LogPath  string `json:"logPath"`
	Attempts int    `json:"attempts"`
	LogLen   int    `json:"logLen"`
	log      []byte
	stdoutF  []byte
	stderrF  []byte
	hasOut   bool
	hasErr   bool
}

// Result of one run.
type Result struct {
	Hang  bool                   `json:"hang,omitempty"`
	Steps map[string]*StepResult `json:"steps"`
	Err   string                 `json:"err,omitempty"`
}

func emitPath() string { return os.Getenv("VERIF_TOOL_EMIT") }

func run(c Case, bound time.Duration) *Result {
	dir, err := os.MkdirTemp(sim.ScratchRoot(), "vc12")
	if err != nil {
		return &Result{Err: err.Error()}
	}
	defer os.RemoveAll(dir)
	var steps []dag.Step
	for i, s := range c.Steps {
		args := []string{filepath.Join(dir, s.Name+".cnt"), strconv.Itoa(s.FailFirst), strconv.Itoa(s.OutN), strconv.Itoa(s.ErrN), strconv.Itoa(s.Chunk)}
		st := dag.Step{Name: s.Name, Command: emitPath(), Args: args}
		if s.Script {
			st.Command, st.Args = "sh", nil
			st.Script = "exec " + emitPath() + " " + strings.Join(args, " ") + "\n"
		}
		if s.Stdout {
			st.Stdout = filepath.Join(dir, s.Name+".stdout")
		}
		if s.Stderr {
			st.Stderr = filepath.Join(dir, s.Name+".stderr")
			if s.Stdout && s.SameFile {
				st.Stderr = st.Stdout
			}
		}
		if s.Output {
			st.Output = "VERIF_OUT_" + strings.ToUpper(s.Name)
		}
		if s.RetryLimit >= 0 {
			st.RetryPolicy = &dag.RetryPolicy{Limit: s.RetryLimit, Interval: time.Duration(s.RetryIvUS) * time.Microsecond}
		}
		if c.Chain && i > 0 {
			st.Depends = []string{c.Steps[i-1].Name}
		}
		st.ContinueOn = dag.ContinueOn{Failure: true}
		steps = append(steps, st)
	}
	g, err := scheduler.NewExecutionGraph(sim.Quiet, steps...)
	if err != nil {
		return &Result{Err: err.Error()}
	}
	sc := scheduler.New(&scheduler.Config{LogDir: filepath.Join(dir, "logs"), Logger: sim.Quiet, ReqID: "verifreq-c12"})
	sc.VerifSetPause(time.Duration(c.PauseUS) * time.Microsecond)
	var done chan *scheduler.Node
	var wg sync.WaitGroup
	if c.Done > 0 {
		done = make(chan *scheduler.Node)
		wg.Add(1)
		go func() {
			defer wg.Done()
			for range done {
				if c.Done == 2 {
					time.Sleep(2 * time.Duration(c.PauseUS) * time.Microsecond)
				}
			}
		}()
	}
	resCh := make(chan error, 1)
	go func() {
		ctx := dag.NewContext(context.Background(), &dag.DAG{Name: "verif-c12"}, nil, "verifreq-c12", filepath.Join(dir, "sched.log"))
		resCh <- sc.Schedule(ctx, g, done)
	}()
	res := &Result{Steps: map[string]*StepResult{}}
	select {
	case <-resCh:
	case <-time.After(bound):
		res.Hang = true
		// end the children; the blocked run is abandoned
		sc.Signal(g, syscall.SIGKILL, nil, false)
		select {
		case <-resCh:
		case <-time.After(300 * time.Millisecond):
		}
	}
	if done != nil && !res.Hang {
		close(done)
		wg.Wait()
	}
	for _, kv := range os.Environ() {
		if strings.HasPrefix(kv, "VERIF_OUT_") || (strings.HasPrefix(kv, "STEP_") && strings.Contains(kv, "_DAG_EXECUTION_LOG_PATH=")) {
			os.Unsetenv(kv[:strings.IndexByte(kv, '=')])
		}
	}
	if res.Hang {
		return res
	}
	for _, n := range g.Nodes() {
		d := n.Data()
		sr := &StepResult{Status: d.State.Status.String(), LogPath: d.State.Log}
		if d.State.Error != nil {
			sr.Err = d.State.Error.Error()
		}
		if b, err := os.ReadFile(filepath.Join(dir, d.Step.Name+".cnt")); err == nil {
			sr.Attempts, _ = strconv.Atoi(string(b))
		}
		if d.State.Log != "" {
			sr.log, _ = os.ReadFile(d.State.Log)
			sr.LogLen = len(sr.log)
		}
		if b, err := os.ReadFile(filepath.Join(dir, d.Step.Name+".stdout")); err == nil {
			sr.stdoutF, sr.hasOut = b, true
		}
		if b, err := os.ReadFile(filepath.Join(dir, d.Step.Name+".stderr")); err == nil {
			sr.stderrF, sr.hasErr = b, true
		} else if d.Step.Stderr != "" && d.Step.Stderr == d.Step.Stdout && sr.hasOut {
			sr.stderrF, sr.hasErr = sr.stdoutF, true
		}
		res.Steps[d.Step.Name] = sr
	}
	return res
}

func bound(c *Case) time.Duration {
	return 10 * time.Second * time.Duration(sim.LoadFactor())
}

func contains(file []byte, stream byte, want []byte) bool {
	return bytes.Contains(pat.Filter(file, stream), pat.Filter(want, stream))
}

func judge(c *Case, r *Result) string {
	for _, s := range c.Steps {
		sr := r.Steps[s.Name]
		if sr == nil {
			return fmt.Sprintf("step %q has no node", s.Name)
		}
		lim := max(s.RetryLimit, 0)
		wantAttempts, wantState := s.FailFirst+1, "finished"
		if s.FailFirst > lim {
			wantAttempts, wantState = lim+1, "failed"
		}
		cfg := fmt.Sprintf("{stdout:%v stderr:%v sameFile:%v output:%v script:%v retryLimit:%d failFirst:%d outN:%d errN:%d chunk:%d}", s.Stdout, s.Stderr, s.SameFile, s.Output, s.Script, s.RetryLimit, s.FailFirst, s.OutN, s.ErrN, s.Chunk)
		if sr.Attempts != wantAttempts {
			return fmt.Sprintf("step %q %s: child was started %d time(s), expected %d (state %s, err %q)", s.Name, cfg, sr.Attempts, wantAttempts, sr.Status, sr.Err)
		}
		if sr.Status != wantState {
			return fmt.Sprintf("step %q %s: reported %q (err %q) although its last attempt (%d) dictates %q", s.Name, cfg, sr.Status, sr.Err, sr.Attempts, wantState)
		}
		last := sr.Attempts
		if sr.LogPath == "" {
			return fmt.Sprintf("step %q %s: no log path in its status", s.Name, cfg)
		}
		if _, err := os.Stat(sr.LogPath); err != nil && sr.log == nil && (s.OutN > 0 || s.ErrN > 0) {
			return fmt.Sprintf("step %q %s: log file named in the status does not exist", s.Name, cfg)
		}
		wantOut, wantErr := pat.Bytes(last, 'o', s.OutN), pat.Bytes(last, 'e', s.ErrN)
		if !contains(sr.log, 'o', wantOut) {
			return fmt.Sprintf("step %q %s: the log file lacks stdout bytes of the last attempt (%d): log has %d stdout-alphabet bytes, attempt wrote %d", s.Name, cfg, last, len(pat.Filter(sr.log, 'o')), len(pat.Filter(wantOut, 'o')))
		}
		if s.Stderr {
			if !sr.hasErr {
				return fmt.Sprintf("step %q %s: stderr file was not created", s.Name, cfg)
			}
			if !contains(sr.stderrF, 'e', wantErr) {
				return fmt.Sprintf("step %q %s: the stderr file lacks stderr bytes of the last attempt (%d): file has %d stderr-alphabet bytes, attempt wrote %d", s.Name, cfg, last, len(pat.Filter(sr.stderrF, 'e')), len(pat.Filter(wantErr, 'e')))
			}
		} else if !contains(sr.log, 'e', wantErr) {
			return fmt.Sprintf("step %q %s: the log file lacks stderr bytes of the last attempt (%d): log has %d stderr-alphabet bytes, attempt wrote %d", s.Name, cfg, last, len(pat.Filter(sr.log, 'e')), len(pat.Filter(wantErr, 'e')))
		}
		if s.Stdout {
			if !sr.hasOut {
				return fmt.Sprintf("step %q %s: stdout file was not created", s.Name, cfg)
			}
			if !contains(sr.stdoutF, 'o', wantOut) {
				return fmt.Sprintf("step %q %s: the stdout file lacks stdout bytes of the last attempt (%d): file has %d stdout-alphabet bytes, attempt wrote %d", s.Name, cfg, last, len(pat.Filter(sr.stdoutF, 'o')), len(pat.Filter(wantOut, 'o')))
			}
		}
	}
	return ""
}

// known findings steered away from by construction (none open at the moment).
func excluded(c *Case) string { return "" }

func check(t rep.Fataler, c Case) {
	if sig := excluded(&c); sig != "" {
		rep.Excluded(sig)
		return
	}
	rep.Begin(ID, "proc", c)
	b := bound(&c)
	r := run(c, b)
	if r.Err != "" {
		rep.Fail(t, ID, "proc", c, r, "case could not be run: %s", r.Err)
	}
	if r.Hang {
		r = run(c, 3*b)
		if r.Hang {
			rep.Fail(t, ID, "proc", c, r, "the run never ended (bounded liveness: %v, then %v) — the step's output is never complete", b, 3*b)
		}
	}
	if msg := judge(&c, r); msg != "" {
		rep.Fail(t, ID, "proc", c, r, "%s", msg)
	}
	key := ""
	var labels []string
	for _, s := range c.Steps {
		redirect := s.Stdout || s.Stderr || s.Output
		retried := r.Steps[s.Name].Attempts >= 2
		offBoundary := (s.OutN%4096 != 0) || (s.ErrN%4096 != 0)
		if (retried && redirect) || (offBoundary && s.OutN > 0 && s.ErrN > 0) {
			key = rep.Hash(c)
		}
		labels = append(labels, fmt.Sprintf("cfg:stdout=%v,stderr=%v,output=%v,script=%v", s.Stdout, s.Stderr, s.Output, s.Script))
		labels = append(labels, fmt.Sprintf("attempts:%d", r.Steps[s.Name].Attempts))
		if retried && redirect {
			labels = append(labels, "retry+redirect")
		}
		for _, n := range []int{s.OutN, s.ErrN} {
			switch {
			case n == 0:
			case n < 4096:
				labels = append(labels, "size:<4096")
			case n <= 65536:
				labels = append(labels, "size:4096..65536")
			default:
				labels = append(labels, "size:>65536")
			}
		}
	}
	rep.Eval(key, labels...)
	if key != "" && rep.WantSample() {
		rep.Sample(map[string]any{"case": c, "result": r})
	}
}

func TestProp(t *testing.T) {
	if emitPath() == "" {
		t.Fatal("VERIF_TOOL_EMIT not set")
	}
	rapid.Check(t, func(t *rapid.T) { check(t, gen(t)) })
}

// TestGrid enumerates the full configuration grid once:
// 16 configs x retry {0,1,2} x stream {out, err, both} x 7 sizes.
func TestGrid(t *testing.T) {
	if emitPath() == "" {
		t.Fatal("VERIF_TOOL_EMIT not set")
	}
	shard, nsh := rep.EnvInt("VERIF_SHARD", 0), rep.EnvInt("VERIF_NSHARDS", 1)
	gridSizes := []int{0, 1, 4095, 4096, 4097, 65536, 131072, 200000, 1 << 20}
	if !rep.Thorough() {
		gridSizes = []int{1, 4097, 65536, 200000}
	}
	i := 0
	for mask := 0; mask < 16; mask++ {
		for retry := 0; retry <= 2; retry++ {
			for stream := 0; stream < 3; stream++ {
				for _, sz := range gridSizes {
					i++
					if i%nsh != shard {
						continue
					}
					s := StepCfg{Name: "a", Stdout: mask&1 != 0, Stderr: mask&2 != 0, Output: mask&4 != 0, Script: mask&8 != 0, RetryLimit: retry, FailFirst: retry, RetryIvUS: 500, Chunk: 5000}
					if stream != 1 {
						s.OutN = sz
					}
					if stream != 0 {
						s.ErrN = sz
					}
					if captured(&s) > maxCapture && retry > 0 {
						// a further attempt would be exec'ed with the oversized variable in its environment
						rep.Excluded("output-variable-beyond-one-environment-string-before-a-retry(OS limit)")
						continue
					}
					check(t, Case{Steps: []StepCfg{s}, PauseUS: 200, Done: (mask + retry) % 3})
					if s.Stdout && s.Stderr && sz <= 65536 {
						s.SameFile = true
						check(t, Case{Steps: []StepCfg{s}, PauseUS: 200, Done: (mask + retry) % 3})
					}
				}
			}
		}
	}
	// concurrent-streams class: with output: and no stderr: file, stdout and
	// stderr are distinct writers sharing the log (and the stdout: file); a
	// child that keeps both pipes full makes the two copy loops write at once.
	for rep_ := 0; rep_ < 3; rep_++ {
		for mask := 0; mask < 4; mask++ {
			i++
			if i%nsh != shard {
				continue
			}
			s := StepCfg{Name: "a", Stdout: mask&1 != 0, Output: true, Script: mask&2 != 0, RetryLimit: -1, OutN: 100000, ErrN: 400000, Chunk: 64}
			check(t, Case{Steps: []StepCfg{s}, PauseUS: 200, Done: rep_})
			rep.Label("class:both-pipes-kept-full")
		}
	}
	if shard == 0 {
		rep.ExhaustiveSpace(fmt.Sprintf("16 {stdout,stderr,output,script} configs x retries 0..2 x {stdout,stderr,both} x sizes %v", gridSizes))
	}
}

func TestReplay(t *testing.T) {
	p := rep.ReplayPath()
	if p == "" {
		t.Skip("no VERIF_REPLAY")
	}
	cf, err := rep.LoadCase(p)
	if err != nil {
		t.Fatal(err)
	}
	var c Case
	if err := json.Unmarshal(cf.Case, &c); err != nil {
		t.Fatal(err)
	}
	for i := 0; i < rep.EnvInt("VERIF_REPLAY_REPS", 10); i++ {
		check(t, c)
	}
}
