// C18 — DAG definitions are created, saved, renamed and deleted safely.
// Model-based test over client.Client + the real DAG store + the real history
// store, and a crash sub-check of the save (recorder under sysstop).
package c18

import (
	"encoding/json"
	"fmt"
	"os"
	"path/filepath"
	"sort"
	"strings"
	"testing"
	"time"

	"github.com/ErdemOzgen/blackdagger/internal/dag"
	"github.com/ErdemOzgen/blackdagger/internal/dag/scheduler"
	"github.com/ErdemOzgen/blackdagger/internal/persistence/local"
	"github.com/ErdemOzgen/blackdagger/internal/persistence/model"
	"github.com/ErdemOzgen/blackdagger/verifharness/agentkit"
	"github.com/ErdemOzgen/blackdagger/verifharness/crashkit"
	"github.com/ErdemOzgen/blackdagger/verifharness/rep"
	"github.com/ErdemOzgen/blackdagger/verifharness/sim"
	"pgregory.net/rapid"
)

const ID = "C18"

func TestMain(m *testing.M) { rep.Main(m, ID) }

// names: similar and prefix-related on purpose (history directories and file
// globs are derived from them); no extension, no slash.
var names = []string{"a", "ab", "a_c", "a b", "b", "a-b", "a_c_c"}

var texts = []string{
	"steps:\n  - name: s1\n    command: \"true\"\n",
	"description: second version\nsteps:\n  - name: s1\n    command: echo 2\n  - name: s2\n    command: echo 3\n    depends: [s1]\n",
	"steps: [\n",                // invalid YAML
	"steps:\n  - name: s1\n",    // valid YAML, rejected by the builder (nothing to execute)
	"",                          // empty
	"HUGE",                      // replaced by a 1 MiB valid definition
	"schedule: \"61 * * * *\"\nsteps:\n  - name: s1\n    command: \"true\"\n", // invalid schedule
	"tags: x,y\nschedule: \"5 4 * * *\"\nsteps:\n  - name: only\n    command: echo ok\n",
	// (appended; indices above are referenced by saved replays)
	"steps:\n  - name: s1\n    command: \"true\"\nhandlerOn:\n  exit:\n    name: h\n",                                   // a handler with nothing to execute
	"steps:\n  - name: s1\n    command: \"true\"\nhandlerOn:\n  failure:\n    command: \"\"\n",                          // a handler with an empty command
	"steps:\n  - name: s1\n    command: \"true\"\nhandlerOn:\n  success:\n    call:\n      function: nope\n      args: {}\n", // a handler calling an undefined function
	"steps:\n  - name: s1\n    call:\n      function: nope\n      args: {}\n",                                             // a step calling an undefined function
	"steps:\n  - name: s1\n    command: \"true\"\nhandlerOn:\n  exit:\n    command: echo bye\n",                      // valid, with a handler
}

// textValid is the expected verdict per text, stated independently of the
// loader (the documented rules: well-formed YAML, every step and handler has
// something to execute, schedules parse, called functions exist).
var textValid = []bool{true, true, false, false, true, true, false, true, false, false, false, false, true}

func text(i int) string {
	t := texts[i%len(texts)]
	if t == "HUGE" {
		return "description: \"" + strings.Repeat("d", 1<<20) + "\"\nsteps:\n  - name: s1\n    command: \"true\"\n"
	}
	return t
}

func valid(t string) bool {
	for i, x := range texts {
		if x == t || (x == "HUGE" && len(t) > 1<<20) {
			return textValid[i]
		}
	}
	// not one of the pool's texts (what is read back from a file): ask the loader
	_, err := dag.LoadYAML([]byte(t))
	return err == nil
}

// Op is one rule application.
type Op struct {
	Kind string `json:"kind"` // create save rename delete run
	Ext  int    `json:"ext,omitempty"` // create: 1 = the name is given with ".yml", 2 = with ".yaml" (the store maps both to <name>.yaml)
	Name int    `json:"name"`
	To   int    `json:"to,omitempty"`
	Text int    `json:"text,omitempty"`
}

// Case is an operation sequence.
type Case struct {
	Ops []Op `json:"ops"`
}

func gen(t *rapid.T) Case {
	max := 20
	if rep.Thorough() {
		max = 45
	}
	n := rapid.IntRange(1, max).Draw(t, "nOps")
	var c Case
	if rapid.IntRange(0, 3).Draw(t, "recycledName") == 0 {
		// a name is used, gets history, is deleted — and is then reused as the
		// target of a rename (or of a create) of another DAG with history
		a := rapid.IntRange(0, len(names)-1).Draw(t, "nameA")
		b := (a + 1 + rapid.IntRange(0, len(names)-2).Draw(t, "nameB")) % len(names)
		c.Ops = append(c.Ops, Op{Kind: "create", Name: a}, Op{Kind: "run", Name: a}, Op{Kind: "delete", Name: a},
			Op{Kind: "create", Name: b}, Op{Kind: "run", Name: b})
		if rapid.Bool().Draw(t, "viaRename") {
			c.Ops = append(c.Ops, Op{Kind: "rename", Name: b, To: a})
		} else {
			c.Ops = append(c.Ops, Op{Kind: "create", Name: a}, Op{Kind: "run", Name: a})
		}
	}
	for i := 0; i < n; i++ {
		c.Ops = append(c.Ops, Op{
			Kind: rapid.SampledFrom([]string{"create", "create", "create", "save", "save", "rename", "rename", "delete", "run", "run"}).Draw(t, "kind"),
			Name: rapid.IntRange(0, len(names)-1).Draw(t, "name"),
			To:   rapid.IntRange(0, len(names)-1).Draw(t, "to"),
			Text: rapid.IntRange(0, len(texts)-1).Draw(t, "text"),
			Ext:  rapid.SampledFrom([]int{0, 0, 0, 1, 2}).Draw(t, "ext"),
		})
	}
	return c
}

type mrun struct{ req, last string }

type world struct {
	h    *agentkit.Home
	defs map[string]string
	runs map[string][]mrun
	seq  int
}

func (w *world) loc(name string) string { return filepath.Join(w.h.DAGs, name+".yaml") }

func sameJSON(a, b string) bool {
	var x, y any
	if json.Unmarshal([]byte(a), &x) != nil || json.Unmarshal([]byte(b), &y) != nil {
		return a == b
	}
	xb, _ := json.Marshal(x)
	yb, _ := json.Marshal(y)
	return string(xb) == string(yb)
}

// verify compares every definition file and every history with the model.
func (w *world) verify(after string) string {
	for _, n := range names {
		b, err := os.ReadFile(w.loc(n))
		want, ok := w.defs[n]
		switch {
		case ok && err != nil:
			return fmt.Sprintf("%s: definition %q is gone (%v)", after, n, err)
		case !ok && err == nil:
			return fmt.Sprintf("%s: a definition file %q exists although the model has none", after, n)
		case ok && string(b) != want:
			return fmt.Sprintf("%s: definition %q holds %d bytes %q, expected %d bytes %q", after, n, len(b), trunc(string(b)), len(want), trunc(want))
		}
		got := w.h.NewDataStores().HistoryStore().ReadStatusRecent(w.loc(n), 1000)
		wantRuns := w.runs[n]
		if len(got) != len(wantRuns) {
			return fmt.Sprintf("%s: history of %q has %d run(s), expected %d", after, n, len(got), len(wantRuns))
		}
		byReq := map[string]string{}
		for _, r := range wantRuns {
			byReq[r.req] = r.last
		}
		for _, sf := range got {
			last, ok := byReq[sf.Status.RequestID]
			if !ok {
				return fmt.Sprintf("%s: history of %q contains run %s which was never recorded for it", after, n, sf.Status.RequestID)
			}
			b, _ := sf.Status.ToJSON()
			if !sameJSON(string(b), last) {
				return fmt.Sprintf("%s: run %s of %q reads %s, recorded %s", after, sf.Status.RequestID, n, trunc(string(b)), trunc(last))
			}
		}
	}
	// listing shows exactly the definitions that exist
	list, _, err := w.h.NewDataStores().DAGStore().List()
	if err != nil {
		return fmt.Sprintf("%s: List failed: %v", after, err)
	}
	var listed, want []string
	for _, d := range list {
		listed = append(listed, filepath.Base(d.Location))
	}
	for n := range w.defs {
		want = append(want, n+".yaml")
	}
	sort.Strings(listed)
	sort.Strings(want)
	if strings.Join(listed, "|") != strings.Join(want, "|") {
		return fmt.Sprintf("%s: List shows %v, expected %v", after, listed, want)
	}
	return ""
}

func trunc(s string) string {
	if len(s) > 60 {
		return s[:60] + "…"
	}
	return s
}

func run(c Case) (string, map[string]bool) {
	labels := map[string]bool{}
	h, err := agentkit.NewHome("/bin/false")
	if err != nil {
		return "harness: " + err.Error(), labels
	}
	defer h.Cleanup()
	w := &world{h: h, defs: map[string]string{}, runs: map[string][]mrun{}}
	for i, o := range c.Ops {
		n := names[o.Name%len(names)]
		desc := fmt.Sprintf("after op %d (%s %q", i, o.Kind, n)
		switch o.Kind {
		case "create":
			_, existed := w.defs[n]
			given := n + []string{"", ".yml", ".yaml"}[o.Ext%3]
			_, err := h.Cli.CreateDAG(given)
			desc += " as " + given
			if existed {
				if err == nil {
					return fmt.Sprintf("create of %q (given as %q) succeeded although a DAG with that name exists", n, given), labels
				}
				labels["create-refused"] = true
			} else {
				if err != nil {
					return fmt.Sprintf("create of the free name %q failed: %v", n, err), labels
				}
				b, _ := os.ReadFile(w.loc(n))
				if !valid(string(b)) {
					return fmt.Sprintf("create of %q wrote a definition that is not valid", n), labels
				}
				w.defs[n] = string(b)
			}
		case "save":
			t := text(o.Text)
			_, existed := w.defs[n]
			err := h.Cli.UpdateDAG(n, t)
			ok := valid(t)
			desc += fmt.Sprintf(", text #%d valid=%v", o.Text%len(texts), ok)
			switch {
			case !existed:
				if err == nil {
					return fmt.Sprintf("save to the non-existing DAG %q succeeded", n), labels
				}
			case ok:
				if err != nil {
					return fmt.Sprintf("save of a valid definition to %q failed: %v", n, err), labels
				}
				w.defs[n] = t
			default:
				if err == nil {
					return fmt.Sprintf("save of an invalid definition (text #%d) to %q was accepted", o.Text%len(texts), n), labels
				}
				labels["save-rejected"] = true
			}
		case "rename":
			to := names[o.To%len(names)]
			desc += " -> " + to
			_, existed := w.defs[n]
			_, taken := w.defs[to]
			err := h.Cli.Rename(n, to)
			switch {
			case !existed:
				if err == nil {
					return fmt.Sprintf("rename of the non-existing DAG %q succeeded", n), labels
				}
			case n == to:
				// onto itself: nothing may change, either answer is fine
			case taken:
				if err == nil {
					return fmt.Sprintf("rename of %q onto the existing DAG %q was accepted (the target's definition is overwritten)", n, to), labels
				}
				labels["rename-onto-existing-refused"] = true
			default:
				if err != nil {
					return fmt.Sprintf("rename of %q to the free name %q failed: %v", n, to, err), labels
				}
				w.defs[to] = w.defs[n]
				delete(w.defs, n)
				if len(w.runs[n]) > 0 {
					labels["rename-with-history"] = true
				}
				w.runs[to] = w.runs[n]
				delete(w.runs, n)
			}
		case "delete":
			_, existed := w.defs[n]
			err := h.Cli.DeleteDAG(n, w.loc(n))
			if existed {
				if err != nil {
					return fmt.Sprintf("delete of %q failed: %v", n, err), labels
				}
				if len(w.runs[n]) > 0 {
					labels["delete-with-history"] = true
				}
				delete(w.defs, n)
				delete(w.runs, n)
			} else if err == nil {
				// deleting what does not exist may be reported either way; nothing may change
				_ = err
			}
		case "run":
			if _, existed := w.defs[n]; !existed {
				continue
			}
			w.seq++
			req := fmt.Sprintf("%08x-c18-%d", 0x2000+w.seq*104729, w.seq)
			st := &model.Status{RequestID: req, Name: n, Status: scheduler.StatusSuccess, StatusText: "finished", StartedAt: "2024-01-01T00:00:00Z", FinishedAt: "2024-01-01T00:00:01Z", Params: fmt.Sprintf("seq=%d", w.seq)}
			hs := h.NewDataStores().HistoryStore()
			if err := hs.Open(w.loc(n), time.Now().Add(-time.Duration(w.seq)*time.Second), req); err != nil {
				return "harness: history open: " + err.Error(), labels
			}
			if err := hs.Write(st); err != nil {
				return "harness: history write: " + err.Error(), labels
			}
			if err := hs.Close(); err != nil {
				return "harness: history close: " + err.Error(), labels
			}
			b, _ := st.ToJSON()
			w.runs[n] = append(w.runs[n], mrun{req, string(b)})
		}
		if msg := w.verify(desc + ")"); msg != "" {
			return msg, labels
		}
	}
	populated := 0
	for n := range w.defs {
		if len(w.runs[n]) > 0 {
			populated++
		}
	}
	if populated >= 2 {
		labels["two-dags-with-history"] = true
	}
	return "", labels
}

func check(t rep.Fataler, c Case) {
	msg, labels := run(c)
	if strings.HasPrefix(msg, "harness:") {
		t.Fatalf("%s", msg)
	}
	if msg != "" {
		rep.Fail(t, ID, "model", c, nil, "%s", msg)
	}
	key := ""
	if labels["create-refused"] || labels["save-rejected"] || labels["rename-onto-existing-refused"] || labels["rename-with-history"] || labels["delete-with-history"] {
		key = rep.Hash(c)
	}
	var ls []string
	for l := range labels {
		ls = append(ls, l)
	}
	rep.Eval(key, ls...)
	if key != "" && rep.WantSample() {
		rep.Sample(map[string]any{"stage": "model", "ops": c.Ops})
	}
}

func TestProp(t *testing.T) {
	rapid.Check(t, func(t *rapid.T) { check(t, gen(t)) })
}

// ---------------------------------------------------------------- crash of a save

// CrashCase: one UpdateSpec(old -> new) killed at the K-th file system call
// (K = 0: enumerate all), optionally with a torn prefix of a write to the
// definition file itself.
type CrashCase struct {
	Old  int `json:"old"`
	New  int `json:"new"`
	K    int `json:"k,omitempty"`
	Torn int `json:"torn,omitempty"` // bytes of the interrupted write that reached the file (-1: none synthesised)
}

func crashOnce(t rep.Fataler, c CrashCase, k int, dry bool) (*crashkit.Result, string, string, func()) {
	dir, err := os.MkdirTemp(sim.ScratchRoot(), "vc18c")
	if err != nil {
		t.Fatalf("tmp: %v", err)
	}
	cleanup := func() { os.RemoveAll(dir) }
	dags := filepath.Join(dir, "dags")
	os.MkdirAll(dags, 0o755)
	oldT, newT := text(c.Old), text(c.New)
	file := filepath.Join(dags, "victim.yaml")
	if err := os.WriteFile(file, []byte(oldT), 0o644); err != nil {
		t.Fatalf("write: %v", err)
	}
	script := map[string]any{"data": filepath.Join(dir, "data"), "dags": dags, "ops": []any{map[string]any{"kind": "updateSpec", "name": "victim", "text": newT}}}
	sb, _ := json.Marshal(script)
	sp := filepath.Join(dir, "script.json")
	os.WriteFile(sp, sb, 0o644)
	o := crashkit.Opts{Classes: "f", Prefixes: []string{dags}, WantLog: dry, Env: os.Environ()}
	if !dry {
		o.KillAt = k
	}
	r, err := crashkit.Run(dir, o, os.Getenv("VERIF_TOOL_RECORDER"), sp)
	if err != nil {
		cleanup()
		t.Fatalf("sysstop: %v", err)
	}
	return r, file, dags, cleanup
}

func judgeFile(file, oldT, newT string) string {
	b, err := os.ReadFile(file)
	if err != nil {
		return fmt.Sprintf("the definition file is gone after the crash (%v)", err)
	}
	if string(b) != oldT && string(b) != newT {
		return fmt.Sprintf("after the crash the definition holds %d bytes %q — neither the complete old text (%d bytes) nor the complete new text (%d bytes)", len(b), trunc(string(b)), len(oldT), len(newT))
	}
	return ""
}

// followUpSaves saves a short and then a long valid text through a fresh store
// over the post-crash directory, restores the file afterwards.
func followUpSaves(dags, file string) string {
	keep, err := os.ReadFile(file)
	if err != nil {
		return ""
	}
	defer os.WriteFile(file, keep, 0o644)
	ds := local.NewDAGStore(&local.NewDAGStoreArgs{Dir: dags})
	defer local.VerifStop(ds)
	for _, t := range []string{"steps:\n  - name: z\n    command: \"true\"\n", text(1) + "# " + strings.Repeat("tail ", 400) + "\n"} {
		if err := ds.UpdateSpec("victim", []byte(t)); err != nil {
			return fmt.Sprintf("a later save of a valid text fails: %v", err)
		}
		b, _ := os.ReadFile(file)
		if string(b) != t {
			return fmt.Sprintf("a later save of %d bytes left %d bytes %q in the definition — not the text that was saved", len(t), len(b), trunc(string(b)))
		}
	}
	return ""
}

func checkCrash(t rep.Fataler, c CrashCase) {
	oldT, newT := text(c.Old), text(c.New)
	if !valid(oldT) || !valid(newT) || oldT == newT {
		return
	}
	dry, _, _, cl := crashOnce(t, c, 0, true)
	cl()
	if dry.TimedOut {
		rep.Inconclusive("dry pass of the save timed out")
		return
	}
	K := dry.Counted
	ks := []int{c.K}
	if c.K == 0 {
		ks = nil
		for k := 1; k <= K; k++ {
			ks = append(ks, k)
		}
	}
	for _, k := range ks {
		if k > K {
			continue
		}
		r, file, dags, cleanup := crashOnce(t, c, k, false)
		if r.TimedOut {
			cleanup()
			rep.Inconclusive("killed save timed out")
			continue
		}
		call := dry.Calls[k-1]
		cc := c
		cc.K = k
		if msg := judgeFile(file, oldT, newT); msg != "" {
			cleanup()
			rep.Fail(t, ID, "crash", cc, map[string]any{"call": call, "of": K}, "save killed at the entry of file-system call %d of %d (%s %s): %s", k, K, call.Name, strings.TrimPrefix(call.Detail, dags), msg)
		}
		// whatever else is left in the directory must not show up as a DAG
		entries, _ := os.ReadDir(dags)
		for _, e := range entries {
			if e.Name() != "victim.yaml" && (strings.HasSuffix(e.Name(), ".yaml") || strings.HasSuffix(e.Name(), ".yml")) {
				cleanup()
				rep.Fail(t, ID, "crash", cc, map[string]any{"call": call}, "save killed at call %d left a stray definition file %q", k, e.Name())
			}
		}
		rep.EvalCounted(true, "crash-point:"+call.Name)
		// life goes on after the crash: a later save (of a shorter and of a
		// longer text) on the surviving directory is all-or-nothing as well —
		// whatever the killed save left behind must not leak into it.
		if msg := followUpSaves(dags, file); msg != "" {
			cleanup()
			rep.Fail(t, ID, "crash", cc, map[string]any{"call": call, "of": K}, "after a save killed at file-system call %d of %d (%s): %s", k, K, call.Name, msg)
		}
		// torn write: a write to the definition file itself that was interrupted
		// after p bytes (the states between this crash point and the next)
		if call.Name == "write" && strings.HasPrefix(call.Detail, file+" ") {
			ps := []int{1, len(newT) / 2, len(newT) - 1}
			if c.Torn > 0 {
				ps = []int{c.Torn}
			}
			for _, p := range ps {
				if p <= 0 || p >= len(newT) {
					continue
				}
				cur, _ := os.ReadFile(file)
				os.WriteFile(file, append(cur, newT[:p]...), 0o644)
				cc.Torn = p
				if msg := judgeFile(file, oldT, newT); msg != "" {
					cleanup()
					rep.Fail(t, ID, "crash", cc, map[string]any{"call": call}, "save killed %d bytes into the write of the new text: %s", p, msg)
				}
				os.WriteFile(file, cur, 0o644)
				rep.EvalCounted(true, "crash-point:torn-write")
			}
		}
		cleanup()
	}
	if c.K == 0 {
		rep.Label(fmt.Sprintf("save-syscalls:%d", K))
	}
}

// TestCrash enumerates every kill point of a save for all pairs of valid texts.
func TestCrash(t *testing.T) {
	if crashkit.Sysstop() == "" || os.Getenv("VERIF_TOOL_RECORDER") == "" {
		t.Fatal("VERIF_SYSSTOP / VERIF_TOOL_RECORDER not set")
	}
	shard, nsh := rep.EnvInt("VERIF_SHARD", 0), rep.EnvInt("VERIF_NSHARDS", 1)
	i := 0
	pairs := 0
	for o := range texts {
		for n := range texts {
			if !valid(text(o)) || !valid(text(n)) || o == n {
				continue
			}
			if !rep.Thorough() && (o == 5 || n == 5) && (o+n)%2 == 0 {
				continue // the 1 MiB text: half of its pairs in the quick tier
			}
			i++
			pairs++
			if i%nsh != shard {
				continue
			}
			checkCrash(t, CrashCase{Old: o, New: n})
		}
	}
	if shard == 0 {
		rep.ExhaustiveSpace(fmt.Sprintf("every file-system call boundary of UpdateSpec(old -> new) for %d ordered pairs of valid texts (incl. empty and 1 MiB)", pairs))
		rep.Sample(map[string]any{"stage": "crash", "old": trunc(text(0)), "new": trunc(text(1)), "killed-at": "every counted call of the save"})
	}
}

func TestReplay(t *testing.T) {
	p := rep.ReplayPath()
	if p == "" {
		t.Skip("no VERIF_REPLAY")
	}
	cf, err := rep.LoadCase(p)
	if err != nil {
		t.Fatal(err)
	}
	if cf.Sub == "crash" {
		var c CrashCase
		if err := json.Unmarshal(cf.Case, &c); err != nil {
			t.Fatal(err)
		}
		checkCrash(t, c)
		return
	}
	var c Case
	if err := json.Unmarshal(cf.Case, &c); err != nil {
		t.Fatal(err)
	}
	check(t, c)
}
