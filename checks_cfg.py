"""Per-property configuration of the driver: which test package, which stages
(test function, shards, case counts per tier), what the check needs built, the
claimed level and the stated generation / non-triviality rule."""

SIM_ASSUME = [
    "the scripted executor mirrors the contract of the real command executor (Kill before start is a no-op, expired context refuses to start, signal ends the process)",
    "interleavings inside one scheduler loop iteration are sampled, not owned; the harness owns completion, stop and release instants",
]


def sim_stage(q, t, **kw):
    d = {"name": "prop", "run": "TestProp", "kind": "rapid", "shards": {"quick": 16, "thorough": 16},
         "checks": {"quick": q, "thorough": t}, "timeout": {"quick": 600, "thorough": 3600}}
    d.update(kw)
    return d


CHECKS = {
    "C01": {
        "pkg": "c01", "level": "exploration",
        "rule": "rapid-generated DagCase (acyclic graph of 1..7 (quick) / 1..12 (thorough) steps in a permuted declaration order x continueOn x retryPolicy x precondition x set-up failure x per-attempt outcome script x maxActiveRuns x delay x polling pause x done-channel consumer) run by the real scheduler on a scripted executor whose attempts block until the harness releases them per a generated schedule; oracle = trace invariant over create/enter/exit events + final states. Non-trivial: >=1 executed step with >=1 dependency AND (two attempts overlapped in time OR a dependency was retried OR a dependency ended failed/skipped). Distinct: hash of (graph, flags, scripts, realised completion order).",
        "assumptions": SIM_ASSUME,
        "stages": [sim_stage(2500, 40000)],
    },
}
