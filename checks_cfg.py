"""Per-property configuration of the driver: which test package, which stages
(test function, shards, case counts per tier), what the check needs built, the
claimed level and the stated generation / non-triviality rule."""

SIM_ASSUME = [
    "the scripted executor mirrors the contract of the real command executor (Kill before start is a no-op, expired context refuses to start, signal ends the process)",
    "interleavings inside one scheduler loop iteration are sampled, not owned; the harness owns completion, stop and release instants",
]


def sim_stage(q, t, **kw):
    d = {"name": "prop", "run": "TestProp", "kind": "rapid", "shards": {"quick": 16, "thorough": 16},
         "checks": {"quick": q, "thorough": t}, "timeout": {"quick": 600, "thorough": 3600}}
    d.update(kw)
    return d


CHECKS = {
    "C01": {
        "pkg": "c01", "level": "exploration",
        "rule": "rapid-generated DagCase (acyclic graph of 1..7 (quick) / 1..12 (thorough) steps in a permuted declaration order x continueOn x retryPolicy x precondition x set-up failure x per-attempt outcome script x maxActiveRuns x delay x polling pause x done-channel consumer) run by the real scheduler on a scripted executor whose attempts block until the harness releases them per a generated schedule; oracle = trace invariant over create/enter/exit events + final states. Non-trivial: >=1 executed step with >=1 dependency AND (two attempts overlapped in time OR a dependency was retried OR a dependency ended failed/skipped). Distinct: hash of (graph, flags, scripts, realised completion order).",
        "assumptions": SIM_ASSUME,
        "stages": [sim_stage(2500, 40000)],
    },
    "C02": {
        "pkg": "c02", "level": "exploration",
        "rule": "same DagCase generator as C01 (no stop / timeout); oracle = local consistency of every step's final state and execution count with the final states of its dependencies and its own outcome script (reference semantics in sim.Expect). Non-trivial: (>=1 step with a blocking dependency AND >=1 executed step downstream of a continueOn-licensed failure/skip) OR a join whose parents ended in different states. Distinct: hash of (graph, flags, scripts, realised completion order).",
        "assumptions": SIM_ASSUME,
        "stages": [sim_stage(2500, 40000)],
    },
    "C03": {
        "pkg": "c03", "level": "exploration",
        "rule": "DagCase with retry limits 0..3 and 'fail the first k attempts' scripts with k below/at/above the limit, every maxActiveRuns, all three done-channel consumers, 10% scheduler-level dry runs; oracle = exact execution count per step (0 if not runnable, min(k,limit)+1 otherwise), no overlap of a step's own attempts, no execution after success, recorded retry count == extra attempts, dry run => zero create/enter events; stage retryrun: the same counts in a run that retries a recorded vector (harness/retrysim, shared with C10): kept steps are executed 0 times, re-executed steps exactly min(k,limit)+1 times with a fresh retry budget. Non-trivial: a retry really happened while >=2 attempts overlapped; dry cases with handlers and >=2 levels. Distinct: hash of (case, realised order).",
        "assumptions": SIM_ASSUME,
        "stages": [sim_stage(2500, 40000), sim_stage(600, 8000, name="retryrun", run="TestRetryRun", shrinktime="20s")],
    },
    "C04": {
        "pkg": "c04", "level": "exploration",
        "rule": "DagCase x every subset of the four handlers (each scripted ok/fail) x optional stop at a generated trace position (before start, after the N-th event, at create/enter/exit of a chosen attempt, at the first handler); oracle = outcome label by zone (no stop: by step states; stop returned before the last step event: canceled unless all steps succeeded; stop at/after the last step event: either) + exactly the matching handler once, onExit once and last, all handler starts after the last step event. Non-trivial: >=2 handlers and outcome != finished, or a stop while >=1 attempt is open, or a failing handler. Distinct: hash of (case, realised order, zone).",
        "assumptions": SIM_ASSUME,
        "stages": [sim_stage(2000, 30000)],
    },
    "C15": {
        "pkg": "c15", "level": "exploration",
        "rule": "DagCase with w in 1..8 mutually independent root steps plus dependents, maxActiveRuns k in 0..w+1, retry scripts with intervals, generated completion schedules; oracle = high-water mark of simultaneously open Run() calls <= k at every trace position; for k=0 all w roots must be open at once while the harness holds them (bounded wait); every run must complete once attempts are released (bounded liveness, confirmed with a 5x re-run). Non-trivial: (w > k > 0 with >=1 retry) or (k = 0 with w >= 3). Distinct: hash of (case, realised order).",
        "assumptions": SIM_ASSUME,
        "stages": [sim_stage(2000, 30000)],
    },
    "C05": {
        "pkg": "c05", "level": "exploration",
        "rule": "layer 1 (scheduler level, scripted executor): DagCase with a stop request injected at a generated trace position (before start; after the N-th event; inside creation of a chosen attempt's executor with the attempt gated until the stop returned = between executor creation and process start; at process start; at/after exit = during retry wait / between repeat iterations; at the first handler) x steps obeying or ignoring the signal (half of the ignoring ones end only on SIGKILL) x signalOnStop x repeating steps x harness-side SIGKILL escalation after 5/20 polling periods (mirrors the agent after maxCleanUpTime); 20% DAG-timeout cases with attempts the harness never releases. Oracle on the trace: no first start after the stop returned; every attempt open during the stop call gets the right signal; repeat steps not signalled and not repeated; still-open attempts get SIGKILL at escalation; run ends (bounded liveness, 5x confirm) canceled with onCancel then onExit once; after a timeout: not finished, no node left running, matching handler and onExit executed. layer 2 (stage proc; scheduler level, REAL processes through the real command executor): 1..3 shell steps that obey the stop signal, ignore it (whole group), ignore it with a background child in the process group holding the output pipe, or die leaving such a child; signalOnStop overrides; output: capture pipes; the harness issues the stop once every root process runs and the SIGKILL escalation after the clean-up time (as Agent.signal does), or lets a DAG timeout fire; oracle: Schedule returns within clean-up + 4 s (x3 confirm), no recorded pid of the run (shell or child) is alive afterwards, a run with unfinished steps is not reported finished, an unstarted step is not reported finished, onExit (and onCancel after a stop) commands ran. Non-trivial: stop with >=1 open attempt, or a signal-ignoring / child-holding real process, or in the create->start window, or repeat iteration open at stop, or force-kill delivered, or a timeout that fired. Distinct: hash(case, realised order).",
        "assumptions": SIM_ASSUME,
        "stages": [sim_stage(1500, 25000, shrinktime="20s"),
                   sim_stage(6, 120, name="proc", run="TestProc", shrinktime="30s")],
    },
    "C14": {
        "pkg": "c14", "level": "exploration", "exhaustive_claim": True,
        "rule": "small-scope exhaustive generator: every digraph (self-loops included) on 1..4 named steps and loop-free edge sets on 5 steps (quick: 2^16 stride sample selected by VERIF_SEED; thorough: all 2^20), each also with one dangling dependency name; plus rapid-generated graphs of up to 40 steps with planted cycles (long cycle, self-loop, back edge, two disjoint cycles), dangling names, duplicate depends entries, permuted declaration order. Oracle: NewExecutionGraph accepts iff all names resolve and an independent three-colour DFS finds no cycle. Non-trivial: graph has >=1 edge. Distinct: enumeration members are distinct by construction (counted), random graphs by hash.",
        "assumptions": ["step names are distinct (the property says so)", "exhaustive=true refers only to the sub-spaces listed in exhaustive_subspaces"],
        "stages": [
            {"name": "enum", "run": "TestExhaustive", "kind": "plain", "shards": 16, "timeout": {"quick": 600, "thorough": 1800}},
            sim_stage(1500, 20000),
        ],
    },
    "C06": {
        "pkg": "c06", "level": "exploration",
        "rule": "model-based stateful test: rapid generates an op list (open+first write / write / close-with-compaction / update of a closed run / rename / age a file with chtimes / removeOld(days) / removeAll) over 2..4 DAG files drawn from a hostile name pool (spaces, dots, glob metacharacters [ ] * ? \\ { }, shared prefixes, the _c compaction suffix, same base name in two directories, .yml, non-ASCII), start times same-second / same-minute / across midnight / days apart, payloads with quotes/newlines and lines beyond the 4096-byte buffer; after EVERY op the full query set (FindByRequestID for every recorded, unknown and foreign id; ReadStatusRecent n=1,2,all; ReadStatusToday) is compared, on every DAG, through a long-lived reader instance and a fresh instance, with an in-memory reference model. Non-trivial: >=2 DAGs with recorded runs AND (two runs within one second OR a hostile name OR an update/rename/retention/interleaved write). Distinct: hash of the op list.",
        "assumptions": ["request ids are unique in their first 8 characters (the file name keeps only 8)", "one open run per DAG (C16); updates address closed runs (the API refuses edits while running)", "retention is defined on file mtime, ages are generated >=1h away from the boundary", "process time zone UTC; a case during which the calendar date changes is discarded"],
        "stages": [sim_stage(300, 4000, shrinktime="30s", env={"TZ": "UTC"})],
    },
    "C17": {
        "pkg": "c17", "level": "exploration", "exhaustive_claim": False,
        "rule": "header grammar x auth configuration grid through middleware.Setup + SetupGlobalMiddleware(sentinel) with httptest: 33 configurations (none / basic / token / both; empty password, prefix-related and scheme-named tokens, a token equal to base64(user:pass)) x scheme spelling (Basic/basic/BASIC/Bearer/bearer/Token/none/doubled) x separator (one space, two spaces, tab, none) x ~22 payload variants (correct, truncated, extended, wrong case, wrong user/password, password only, invalid base64, missing colon, token under Basic, base64(token) ...) x absent/empty/multiple headers x method x routed path shape x base path; plus rapid-random combinations and random printable headers (and native fuzzing of the raw header value in the thorough tier). Oracle = decision table from the property: only-if (API sentinel reached => some blank-separated field of the first Authorization header is the token or base64-decodes to exactly user:password), if (exact standard form => reached), otherwise 401 and sentinel not reached; auth off => reached. Non-trivial: auth configured and header present but not in exact standard form, or both mechanisms configured. Distinct: grid members by construction, random cases by hash.",
        "assumptions": ["tokens contain no blanks and user names no colon (RFC forms); empty token is judged on the only-if direction only", "OPTIONS is answered by the CORS layer after authentication and counts as passed when not 401", "non-/api paths (UI assets) are outside the property", "CONNECT has no path and is not generated"],
        "stages": [
            {"name": "grid", "run": "TestGrid", "kind": "plain", "shards": 16, "timeout": {"quick": 600, "thorough": 1800}},
            sim_stage(20000, 300000),
            {"name": "fuzz", "run": "FuzzHeader", "kind": "fuzz", "tiers": ["thorough"], "fuzztime": {"thorough": "60s"}, "shards": 1, "timeout": {"thorough": 400}},
        ],
    },
    "C13": {
        "pkg": "c13", "level": "exploration",
        "rule": "grammar-based generation: a valid definition is built field by field from a drawn Choice (schedule in string/list/map form, env map/list, params, handler subsets, functions+call, executor string/map with nested config, script, sub-workflow, preconditions incl. re: patterns, signalOnStop, retry/repeat policies, mail/smtp, misc) and 0..3 type-confusion mutations are applied at drawn tree positions (replace by one of 36 hostile values: scalars, null, lists, maps, nested list of maps, .nan/.inf, 70 kB string, invalid regex/cron/signal, unknown schedule key, non-string key; delete, duplicate, re-nest, add an unknown key); every text goes through LoadYAML, LoadMetadata, LoadWithoutEval and (grammar inputs only, whitelisted substitutions) the evaluating Load; plus the repository's 35 fixture files and hostile constants as byte inputs, and native go test -fuzz on the bytes in the thorough tier. Oracle: each entry point returns an error or a DAG (panic / nil,nil / >5 s twice = violation); an accepted DAG has named steps+handlers with something to execute, parsed cron schedules accepted by a fresh standard parser, valid signal names, a status that serialises to JSON and round-trips, conditions that evaluate without panic, and a graph build that returns. Non-trivial: input decodes as a YAML mapping AND (accepted OR rejected by the builder rather than the YAML decoder) AND >=1 mutation (or raw bytes). Distinct: hash of the YAML text.",
        "assumptions": ["byte inputs containing a command substitution outside a whitelist of harmless commands are skipped (counted) — the loader runs as root", "only grammar-generated definitions are loaded through the evaluating entry point"],
        "stages": [
            {"name": "corpus", "run": "TestCorpus", "kind": "plain", "shards": 1, "timeout": 300},
            sim_stage(1500, 60000, shrinktime="20s"),
            {"name": "fuzz", "run": "FuzzLoad", "kind": "fuzz", "tiers": ["thorough"], "fuzztime": {"thorough": "150s"}, "shards": 1, "timeout": {"thorough": 900}},
        ],
    },
    "C19": {
        "pkg": "c19", "level": "exploration", "exhaustive_claim": True,
        "rule": "canary planting over the C13 definition grammar: a canary (0: the whole value is a backtick `touch <tmp>/canary_i`; 1: the substitution appended to the default value; 2: a ${VAR} reference appended) is planted in one string-valued field at a time — exhaustively over the field catalogue of three maximal definitions (every optional block, all schedule/env forms, all seven step kinds, all handlers) x 18 non-executing entry points (dag.LoadYAML / LoadMetadata / LoadWithoutEval, DAGStore.UpdateSpec / GetDetails / GetMetadata / GetSpec / List / ListPagination / Grep / Find / TagList, client.GetStatus / GetAllStatus / GetAllStatusPagination / Grep / GetTagList, the daemon's initial directory read) — and in random subsets of 1..5 fields of random definitions (rapid). Oracle: no canary file exists afterwards and the sorted os.Environ() is identical before and after; positive control per run: the evaluating dag.Load does create the env/params/logDir canaries and exports variables. Non-trivial: every (field, entry point, kind) triple; distinct by construction (catalogue) or by hash (random).",
        "assumptions": ["side effects are observed as files created by the planted command and as changes of the process environment; other effects of arbitrary commands are represented by the canary", "the process environment is restored after every case"],
        "stages": [
            {"name": "catalogue", "run": "TestCatalogue", "kind": "plain", "shards": 16, "timeout": {"quick": 600, "thorough": 1200}},
            sim_stage(150, 6000),
        ],
    },
    "C10": {
        "pkg": "c10", "level": "exploration",
        "rule": "the recorded state vector is produced, not invented: a DagCase (no step preconditions) is really run on the scripted executor to its end, stopped at a generated trace position, or 'crashed' = cut at the k-th status the agent would have persisted (before the start and at every done-channel hand-over, so vectors contain 'running' and 'not started' nodes); the vector goes through the real persistence encoding (model.FromNodes -> JSON -> StatusFromJSON -> ToNode) and is retried with NewExecutionGraphForRetry + Schedule under generated retry-time outcome scripts, completion schedules, maxActiveRuns and done consumers. Oracle: must-rerun set R = steps recorded failed/canceled/running/not started closed under 'downstream of'; steps outside R have zero executor events and keep their recorded state; steps in R are executed (>=1) unless a dependency blocks them in the retry, and end in the state their retry script dictates; dependency order (C01 oracle) holds; the retry terminates (bounded liveness, 5x confirm on the same vector). Non-trivial: R non-empty and not all steps. Distinct: hash(case, vector, realised retry order).",
        "assumptions": SIM_ASSUME + ["recorded 'skipped' steps are outside the property's enumeration and are not generated (no step preconditions)", "the agent-level clauses (new request id, parameters, recorded steps after an edit of the file) are checked by the 'agent' stage"],
        "stages": [sim_stage(1500, 20000, shrinktime="20s")],
    },
    "C12": {
        "pkg": "c12", "level": "exploration", "exhaustive_claim": True, "needs": ["tool:emit"],
        "rule": "real child processes (tools/emit: attempt-tagged pseudo-random patterns over disjoint alphabets, stdout lower-case / stderr upper-case, written in generated chunk sizes, failing the first k invocations) run by the real scheduler + real command executor: 1..3 steps (independent or chained) x {stdout: file, stderr: file, output: variable, script} power set x retry limit none/0/1/2 x k below/at/above the limit x stream {stdout, stderr, both interleaved} x sizes {0,1,2,100,4095,4096,4097,8191..8193,65535..65537, random <20000, 60000..300000, 131072 / 1 MiB} x chunk sizes x done-channel consumer {none, prompt, slow}; plus the full grid (16 configs x retries 0..2 x 3 streams x sizes) once. Oracle after Schedule returns: the file named by State().Log filtered to the stdout alphabet contains the last attempt's stdout bytes as a contiguous substring, filtered to the stderr alphabet the last attempt's stderr bytes (or the stderr: file does when configured); the stdout: file contains the stdout bytes; number of invocations and final state agree with the script; the run ends (bounded liveness 10 s, confirmed with 30 s). Non-trivial: (a retry really happened AND a redirect/output is configured) OR (both streams non-empty with a size off the 4096 boundary). Distinct: hash of the case.",
        "assumptions": ["interleaving between the two streams in one file is unconstrained (both are filtered by alphabet)", "the stdout:/stderr: files are opened in append mode by the code; only the last attempt's bytes are required to be present"],
        "stages": [
            {"name": "grid", "run": "TestGrid", "kind": "plain", "shards": 16, "timeout": {"quick": 600, "thorough": 1800}},
            sim_stage(40, 1500, shrinktime="30s"),
        ],
    },
    "C11": {
        "pkg": "c11", "level": "exploration", "needs": ["tool:emit", "cli"],
        "rule": "stage parse: parameter strings are built token by token in the documented syntax (bare word / \"quoted value\" / NAME=value / NAME=\"quoted value\"; values over letters, digits, punctuation, spaces, tabs, '=', escaped quotes, non-ASCII; no '$', backtick or backslash — substitution / undocumented escapes), as file defaults or as start override, so the expected $1..$n / $NAME values are known by construction; the real evaluating loader (dag.Load) must produce exactly those in DAG.Params and in the exported environment, and the recorded string (model.Params) re-loaded as retry/restart do must yield the same again (round trip). stage proc: real processes under the real agent in-process: a producer prints a generated payload (sizes 0,1,2,17,100,4095..4097,65535..65537,100000, random; units with spaces, newlines, quotes, '=', '$', backslashes, backticks, UTF-8; leading/trailing whitespace; optional stderr noise) captured with output:, and `env -0` consumers with stdout: probe files at every position (non-adjacent descendant, unrelated step ordered after the producer by a marker file, onFailure/onSuccess/onExit handlers, the re-executed part of a retry, all steps of a restart) show the exact environment each child saw; every occurrence of $n, $NAME and the output variable must equal the expected value (TrimSpace(payload) for the output). stage cli: the real binary: `blackdagger start -p <string> file` (argv passed verbatim, no shell), then `blackdagger retry --req=<id>` and `blackdagger restart`, same `env -0` probes; strings that begin AND end with a quote are steered away (the CLI strips one surrounding pair, pinned by cmd/start_test.go). Non-trivial: a value with space/quote/'=' or a payload on a size boundary or with newline/quote/'='/'$'. Distinct: hash of the case.",
        "assumptions": ["parameter values exclude '$', backtick and backslash (substitution is documented there; only \\\" is a documented escape)", "captured outputs are valid UTF-8 without NUL and fit one environment string (<= 100000 bytes)", "$n of a named parameter holds NAME=value (pinned by builder_test ParamsWithComplexValues)", "the CLI's own quote stripping (cmd/start.go removeQuotes) is outside the in-process legs"],
        "stages": [
            {"name": "parse", "run": "TestParse", "kind": "rapid", "shards": {"quick": 16, "thorough": 16}, "checks": {"quick": 1500, "thorough": 30000}, "timeout": {"quick": 600, "thorough": 3600}},
            sim_stage(5, 60, shrinktime="20s"),
            {"name": "cli", "run": "TestCLI", "kind": "rapid", "shards": {"quick": 16, "thorough": 16}, "checks": {"quick": 3, "thorough": 40}, "timeout": {"quick": 600, "thorough": 3600}, "shrinktime": "20s"},
        ],
    },
    "C18": {
        "pkg": "c18", "level": "exploration", "exhaustive_claim": True, "needs": ["sysstop", "tool:recorder"],
        "rule": "stage model (rapid, stateful): operation sequences create / save(text) / rename(old,new) / delete / record-a-run over 7 similar and prefix-related names (a, ab, a_c, 'a b', b, a-b, a_c_c) and 8 candidate texts (two valid, invalid YAML, valid YAML rejected by the builder, empty, 1 MiB valid, invalid schedule, valid with schedule+tags) through client.Client over the real DAG store and the real history store; after EVERY operation the bytes of every definition file, the full history of every name and the listing are compared with a reference model (name -> text, name -> runs): create/rename never overwrite an existing name, save replaces iff the validator accepts the text, accepted rename moves definition and every run, delete removes that definition and its runs only. stage crash (fault enumeration): one UpdateSpec(old -> new) executed by tools/recorder under the sysstop ptrace supervisor is SIGKILLed at the entry of EVERY file-system call of the save (and with torn prefixes of a write to the definition file itself) for all ordered pairs of valid texts; afterwards the file holds exactly old or exactly new and no stray definition file exists. Non-trivial (model): a refused create / save / rename on a populated store, or a rename/delete of a DAG with history; (crash): every kill point. Distinct: hash of the op list; kill points by construction.",
        "assumptions": ["names without a dot (anything after a dot is taken for a file extension by the store) and without '/' (the store rewrites .yml and treats names with a slash as raw paths for backward compatibility)", "process-crash model: data handed to write(2) is durable; power loss / fsync ordering is out of scope", "validity of a text = what dag.LoadYAML (the validator the store itself uses) accepts"],
        "stages": [
            {"name": "crash", "run": "TestCrash", "kind": "plain", "shards": 16, "timeout": {"quick": 900, "thorough": 1800}},
            sim_stage(150, 3000, shrinktime="30s"),
        ],
    },
    "C07": {
        "pkg": "c07", "level": "fault_enumeration", "needs": ["sysstop", "tool:recorder"],
        "rule": "crash points are generated integers: a prior history of 0..3 completed runs (1..3 statuses each, payloads with lines beyond the 4096-byte buffer, some files aged 3 days) over 1..2 similarly named DAGs is built with the real store; a sound-by-construction operation sequence (open + first write / write / close-with-compaction / update of a completed run / rename / remove-old 1 day or all) is executed by tools/recorder in its own process under the sysstop ptrace supervisor, which SIGKILLs it at the ENTRY of the k-th file-system call under the data directory (openat with create/trunc/append/write flags, write, rename, unlink, mkdir, ftruncate, fsync, close); quick tier: <=12 drawn k per history, thorough: every k in 1..K; for a killed append every proper prefix (all for <=64 bytes, 6 boundary prefixes otherwise) is synthesised from the run killed one call later. Oracle on the surviving directory with a fresh store, from the recorder's ACK lines: every completed run not subject to an acknowledged/in-flight removal is returned by FindByRequestID (under the old or new name during an in-flight rename) with exactly its last acknowledged status (or the in-flight update's); the interrupted run is returned with the last acknowledged status or the in-flight one; latest-status and recent-history answer without error whenever acknowledged data exists, name the newest-started run with acknowledged data (or a later unacknowledged one), and never show an older status; no query panics. Non-trivial: >=1 prior run AND the kill lands in close/compaction, update, rename, remove-old or inside a write call; distinct: hash(history, ops, k); torn prefixes counted by construction.",
        "assumptions": ["process-crash model: the kernel survives, bytes handed to write(2) are durable; fsync ordering / power loss out of scope", "request ids unique in their first 8 characters; one open run per process", "whether an acknowledged remove-old really removed a run is C06's business; here removed runs are simply no longer required"],
        "stages": [{"name": "known", "run": "TestKnown", "kind": "plain", "shards": 1, "timeout": 300},
                   sim_stage(40, 400, shrinktime="30s", timeout={"quick": 900, "thorough": 3600})],
    },
    "C09": {
        "pkg": "c09", "level": "exploration",
        "rule": "cronsim: rapid generates 1..5 DAG files (schedule as string / list / start-stop-restart map; expressions from the standard 5-field grammar: *, ?, numbers, ranges, lists, steps, N/step, month and weekday names in either case, mixed day-of-month/day-of-week, plus parseable never-matching expressions such as '0 0 30 2 *'; invalid cron, non-YAML and wrongly typed files; suspended flags; .yml), a history per DAG (none / older run / run started in the first tick's minute / still running; runs that stay running for 0..5 ticks) and a tick script of 1..6 (thorough 12) segments of consecutive minutes starting at calendar anchors (Feb 28/29, month and year ends, ...) with gaps of minutes to a month, jumps to just before a schedule's next match, late / bunched ticks (wall clock lagging the logical tick), daemon restarts, and file events between segments (add / edit schedule by direct write or rename-into-place / delete / overwrite with garbage / toggle suspend). Every tick is executed by the real daemon objects (scheduler.New + real entry reader + real inotify watcher + real job guard) through the verif-tagged VerifRunTick against a recording fake of client.Client whose Start takes 300 us (as a process spawn does); watcher progress is awaited with a sentinel file. Oracle per tick and DAG, from an independent cron matcher (harness/cronmodel, cross-checked against the library as an oracle self-check that can only yield 'inconclusive'): exactly one start iff a start schedule matches AND not suspended AND not running AND the latest run did not start in or after that minute, otherwise none; stop iff a stop schedule matches and the DAG runs; restart iff a restart schedule matches; nothing for DAGs without a loadable definition; a DAG overwritten with garbage is don't-care until its next valid write or a daemon restart; several action kinds of one DAG in one minute are order-ambiguous and skipped. Non-trivial: (>=1 start issued AND >=1 start suppressed by the guard) OR a month/leap-day anchor crossed OR a file event between ticks. Distinct: hash of the case.",
        "assumptions": ["process time zone UTC", "the real-time loop start() (timer arithmetic) is not executed; its tick sequencing is reproduced with nextTick", "the generator stays inside the expression grammar the loader accepts; what the loader rejects is C13's business", "suspended DAGs are judged on starts only"],
        "stages": [
            {"name": "matcher", "run": "TestMatcher", "kind": "rapid", "shards": {"quick": 4, "thorough": 16}, "checks": {"quick": 300, "thorough": 3000}, "timeout": {"quick": 300, "thorough": 1200}},
            sim_stage(150, 3000, shrinktime="30s", env={"TZ": "UTC"}),
        ],
    },
}
