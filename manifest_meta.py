"""Human-written part of MANIFEST.json."""

NOTES = ("All checks are property-based tests / fuzzers (pgregory.net/rapid v1.3.0 generators, small-scope exhaustive "
         "generators, Go native fuzzing in the thorough tier) judged by explicit oracles; see DESIGN.md. "
         "Exit 2 means inconclusive (build failure, time-out), never a violation.")

ENGINES = [
    {"name": "simexec", "path": "harness/sim", "serves_properties": ["C01", "C02", "C03", "C04", "C05", "C10", "C15"],
     "kind_free_text": "scripted in-process executor registered with the real executor registry + harness-owned release schedule; trace oracles"},
    {"name": "storemodel", "path": "harness/chk/c06", "serves_properties": ["C06", "C18", "C20"],
     "kind_free_text": "rapid state machines comparing the real stores / API with in-memory reference models after every step"},
    {"name": "crashkit", "path": "ptrace/sysstop.c", "serves_properties": ["C07", "C08", "C16", "C18"],
     "kind_free_text": "ptrace supervisor (count / kill-at-k / hold-at-k over file, socket and exec system calls) + recorder helper executing scripted store operations with acknowledgements"},
    {"name": "cronsim", "path": "harness/chk/c09", "serves_properties": ["C09"],
     "kind_free_text": "simulated minute ticks against the real daemon objects (build-tagged tick/watcher hooks) with a recording fake client.Client; independent cron matcher in harness/cronmodel"},
    {"name": "authgrid", "path": "harness/chk/c17", "serves_properties": ["C17"],
     "kind_free_text": "header grammar x auth configuration grid through the real middleware chain with httptest"},
    {"name": "loaderfuzz", "path": "harness/yamlgen", "serves_properties": ["C13", "C19"],
     "kind_free_text": "grammar of DAG definitions with a per-field value hook (canaries, type confusion) + native fuzz targets on bytes"},
    {"name": "procprobe", "path": "harness/tools/emit", "serves_properties": ["C11", "C12"],
     "kind_free_text": "real child processes (emit helper / env -0 probes) run by the real scheduler, command executor and agent; observed through files"},
    {"name": "graphenum", "path": "harness/chk/c14", "serves_properties": ["C14"],
     "kind_free_text": "small-scope exhaustive digraph enumeration + random graphs with planted cycles; independent DFS oracle"},
]

SIM_NOTE = ("Trusted: the scripted executor's fidelity to the real command executor's contract; the Go runtime; rapid's generators. "
            "Explores generated cases only (no absence claim); loop-internal interleavings are sampled.")

META = {
    "C01": {
        "engine": "simexec", "design_ref": "DESIGN.md section 3 C01",
        "technique": "property-based testing (rapid) of the real scheduler on a scripted executor; trace-invariant oracle over generated DAGs, outcome scripts and harness-owned completion schedules",
        "level_text": "Generated search: tens of thousands of random DAG x flag x script x schedule cases per run, each judged by an ordering invariant over the observed start/finish trace; holds on everything generated, proves nothing beyond it.",
        "level_note": SIM_NOTE,
    },
    "C02": {
        "engine": "simexec", "design_ref": "DESIGN.md section 3 C02",
        "technique": "property-based testing (rapid) against a reference model of the DAG semantics (local-consistency oracle over final states and execution counts)",
        "level_text": "Generated search over DAG x continueOn x precondition x outcome script x completion schedule; every final state vector is compared with what the reference semantics allows. Holds on everything generated.",
        "level_note": SIM_NOTE,
    },
    "C03": {
        "engine": "simexec", "design_ref": "DESIGN.md section 3 C03",
        "technique": "property-based testing (rapid): execution-count oracle over the scripted executor's trace, retry scripts below/at/above the limit, dry-run cases",
        "level_text": "Generated search; the trace gives the exact number and overlap of executions per step, compared with min(k,limit)+1 and the recorded retry count.",
        "level_note": SIM_NOTE,
    },
    "C04": {
        "engine": "simexec", "design_ref": "DESIGN.md section 3 C04",
        "technique": "property-based testing (rapid) with generated stop injection; decision-table oracle for outcome label and handler selection/order over the trace",
        "level_text": "Generated search over DAG x handler subsets x handler outcomes x stop instants; label and handler trace judged against the property's table, with the spec's ambiguous window accepted both ways.",
        "level_note": SIM_NOTE,
    },
    "C15": {
        "engine": "simexec", "design_ref": "DESIGN.md section 3 C15",
        "technique": "property-based testing (rapid): high-water-mark invariant over the trace, harness-held attempts for the k=0 clause, bounded liveness with confirmed re-run",
        "level_text": "Generated search over width x k x retry scripts x completion schedules; upper bound checked at every trace position, 'no limit' and 'never prevents completion' as bounded waits.",
        "level_note": SIM_NOTE,
    },
    "C05": {
        "engine": "simexec", "design_ref": "DESIGN.md section 3 C05",
        "technique": "property-based testing (rapid) with generated stop/timeout injection at trace positions; trace-invariant oracle (signal fan-out, no start after stop, force-kill, handlers) and bounded liveness with confirmed re-run",
        "level_text": "Generated search over DAG x stop instant x signal behaviour x repeat/retry x timeout; the harness owns the stop instant (including the window between executor creation and process start) and the SIGKILL escalation.",
        "level_note": SIM_NOTE,
    },
    "C14": {
        "engine": "graphenum", "design_ref": "DESIGN.md section 3 C14",
        "technique": "small-scope exhaustive generation + property-based testing (rapid) against an independent DFS cycle/dangling-name oracle (differential)",
        "level_text": "Exhaustive over every digraph on <=4 steps (and, thorough, all 2^20 loop-free edge sets on 5); generated search with planted cycles up to 40 steps. Exhaustive only for the listed sub-spaces.",
        "level_note": "Trusted: the 25-line DFS oracle. The agent-level clause (refused run executes nothing and records nothing) is checked on a sampled subset.",
    },
    "C06": {
        "engine": "storemodel", "design_ref": "DESIGN.md section 3 C06",
        "technique": "model-based (stateful) property testing with rapid: generated operation histories on the real jsondb store compared after every step with an in-memory reference model",
        "level_text": "Generated search over operation histories x hostile DAG names x start-time clusters x payloads; every query answer on every DAG is compared with the model after every operation (cross-DAG isolation is implied).",
        "level_note": "Trusted: the ~150-line reference model; file mtime as the retention clock. No absence claim.",
    },
    "C17": {
        "engine": "authgrid", "design_ref": "DESIGN.md section 3 C17",
        "technique": "grammar-based grid + property-based testing (rapid) + native fuzzing of the header value, judged by a decision table written from the property (differential against the real middleware chain)",
        "level_text": "Enumerated header grammar x configuration grid and random/fuzzed headers through the real middleware chain with a sentinel API handler.",
        "level_note": "Trusted: the decision-table oracle (necessary condition = a header field equals the token or decodes to user:password). The routed swagger handlers themselves are behind the same chain.",
    },
    "C13": {
        "engine": "loaderfuzz", "design_ref": "DESIGN.md section 3 C13",
        "technique": "grammar-based property testing with type-confusion mutators (rapid) + corpus replay + coverage-guided native fuzzing (thorough); validity-predicate oracle on every accepted DAG, crash/hang oracle on every entry point",
        "level_text": "Generated search over the definition grammar x mutation positions x hostile values through every loader entry point; accepted definitions are checked for the structural guarantees the property lists and for a JSON status round trip.",
        "level_note": "Trusted: yaml.v2 as emitter of the generated texts; the static validity predicate. Executing accepted definitions under the agent is sampled separately.",
    },
    "C19": {
        "engine": "loaderfuzz", "design_ref": "DESIGN.md section 3 C19",
        "technique": "grammar-based canary planting: exhaustive field x entry-point catalogue + rapid-random field subsets; side-effect oracle (canary files, environment diff) with a positive control",
        "level_text": "Every string-valued field of the definition grammar gets a command-substitution / variable canary in turn and is loaded through every non-executing entry point; exhaustive for the catalogue, generated search beyond it.",
        "level_note": "Trusted: the field catalogue is complete for the grammar (it is computed from the builder itself); the positive control shows the oracle is not vacuous.",
    },
    "C10": {
        "engine": "simexec", "design_ref": "DESIGN.md section 3 C10",
        "technique": "property-based testing (rapid): recorded state vectors produced by running / stopping / cutting a generated original run, round-tripped through the real persistence encoding, retried on the scripted executor; set-equality oracle (executed set == must-rerun closure), C01 ordering oracle, bounded liveness",
        "level_text": "Generated search over DAG x original-run schedule x cut point (end / stop / k-th persisted status) x retry-time scripts and schedules; executed set compared with the must-rerun closure computed independently from the recorded vector.",
        "level_note": SIM_NOTE,
    },
    "C12": {
        "engine": "procprobe", "design_ref": "DESIGN.md section 3 C12",
        "technique": "property-based testing (rapid) + full configuration grid with real child processes emitting known byte patterns; containment oracle on the log / redirect files per stream alphabet; bounded liveness",
        "level_text": "Generated search over writer configuration x retries x streams x sizes around every buffer boundary x chunking x done consumer, plus the enumerated grid; files compared with the pattern the child was told to emit.",
        "level_note": "Trusted: tools/emit writes what pat.Bytes says (shared package); the OS pipe semantics. Exhaustive only for the listed grid.",
    },
    "C11": {
        "engine": "procprobe", "design_ref": "DESIGN.md section 3 C11",
        "technique": "property-based testing (rapid): constructive generator of parameter strings (expected values known by construction) against the real loader, record->reload round-trip oracle, and real child processes whose exact environment is dumped with `env -0` at every consumer position incl. retry and restart",
        "level_text": "Generated search over the documented parameter syntax x value alphabets and over payloads x sizes x consumer positions with real processes; every observed environment value compared with the value known by construction.",
        "level_note": "Trusted: `env -0` reports the child's environment faithfully; yaml.v2 as emitter of the generated definitions. The CLI quoting layer is not part of the in-process legs.",
    },
    "C18": {
        "engine": "storemodel", "design_ref": "DESIGN.md section 3 C18",
        "technique": "model-based (stateful) property testing with rapid over client.Client + real stores against a reference model, plus fault enumeration: SIGKILL at every file-system call of a save (ptrace supervisor) with an old-or-new oracle",
        "level_text": "Generated operation histories over similar names and candidate texts compared with a reference model after every step; every system-call boundary of UpdateSpec enumerated for all pairs of valid texts.",
        "level_note": "Trusted: the reference model (~80 lines); dag.LoadYAML as the definition of 'valid'; the ptrace supervisor's call classification. Kill points are exhaustive for the listed pairs only.",
    },
    "C07": {
        "engine": "crashkit", "design_ref": "DESIGN.md section 3 C07",
        "technique": "fault injection driven by property-based generation (rapid): generated histories x operation scripts x kill point k at system-call boundaries (ptrace supervisor) x synthesised torn-write prefixes; acknowledgement-based durability oracle evaluated with the real store on the surviving directory",
        "level_text": "Fault enumeration over the system-call boundaries of the recording process for generated histories: sampled k in the quick tier, every k in the thorough tier, plus torn prefixes of the killed append.",
        "level_note": "Trusted: the supervisor's classification of file-system calls; the recorder's ACK protocol (an op is acknowledged only after its call returned). Process-kill model, not power loss.",
    },
    "C09": {
        "engine": "cronsim", "design_ref": "DESIGN.md section 3 C09",
        "technique": "property-based testing (rapid) of the real daemon objects under simulated minute ticks with a recording fake client; differential oracle = independent cron matcher + guard model, itself cross-checked against the library (self-check can only yield inconclusive)",
        "level_text": "Generated search over cron grammar x calendar anchors x tick scripts (gaps, late/bunched ticks, restarts) x file events x run histories; every tick's Start/Stop/Restart calls compared with the model.",
        "level_note": "Trusted: the ~120-line independent matcher (self-checked against the library each run); the fake client's fidelity (Start takes a moment, status = what it recorded). The real-time loop is not executed.",
    },
    "C20": {
        "engine": "storemodel", "design_ref": "DESIGN.md section 3 C20",
        "technique": "model-based (stateful) property testing with rapid through the generated API handlers configured by the real frontend handler; before/after full-dump oracle (metamorphic: refused or malformed => identical dumps; accepted => exactly the permitted delta)",
        "level_text": "Generated action sequences x DAG states (never run, finished, failed, running, canceled, crashed) x argument classes through httptest; every action judged by comparing complete dumps of histories, definitions, flags and the spawn log.",
        "level_note": "Trusted: the dump covers everything the property speaks about (history, definitions, suspend flags, spawned commands); the in-process agent as producer of realistic histories.",
    },
    "C08": {
        "engine": "crashkit", "design_ref": "DESIGN.md section 3 C08",
        "technique": "property-based testing (rapid) of the real agent in-process on the scripted executor with trace-based live-status oracle and a concurrent poller, plus fault injection on the real binary: SIGKILL at generated / enumerated system-call boundaries (ptrace supervisor) with a marker-file truth oracle, a daemon tick and a restart",
        "level_text": "Live: generated DAGs x completion schedules with status queries at every decision point and continuous polling. Crash: kill points over the start-up, execution and shutdown of `blackdagger start` (sampled quick, enumerated thorough) for three DAG shapes with and without prior history.",
        "level_note": "Trusted: the scripted executor's trace as ground truth for the live part; marker files as ground truth for the crash part; the supervisor's call classification.",
    },
    "C16": {
        "engine": "crashkit", "design_ref": "DESIGN.md section 3 C16",
        "technique": "schedule-point injection driven by generated integers: the real first start is held by a ptrace supervisor at the k-th counted system call while a second start / retry is issued; outside-view snapshots + marker-file oracle by phase; sampled k (quick) / every k (thorough)",
        "level_text": "Enumeration of the system-call boundaries of a real `blackdagger start` as instants for the second start; quick samples them and always covers the start-up window, thorough enumerates all in both modes.",
        "level_note": "Trusted: the supervisor's hold (only the calling thread stands still); marker lines as ground truth of executions. One open known finding (probe-then-bind window) is counted, not alarmed.",
    },
}

NOT_APPLICABLE = {}
