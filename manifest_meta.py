"""Human-written part of MANIFEST.json."""

NOTES = ("All checks are property-based tests / fuzzers (pgregory.net/rapid v1.3.0 generators, small-scope exhaustive "
         "generators, Go native fuzzing in the thorough tier) judged by explicit oracles; see DESIGN.md. "
         "Exit 2 means inconclusive (build failure, time-out), never a violation.")

ENGINES = [
    {"name": "simexec", "path": "harness/sim", "serves_properties": ["C01", "C02", "C03", "C04", "C05", "C10", "C15"],
     "kind_free_text": "scripted in-process executor registered with the real executor registry + harness-owned release schedule; trace oracles"},
]

SIM_NOTE = ("Trusted: the scripted executor's fidelity to the real command executor's contract; the Go runtime; rapid's generators. "
            "Explores generated cases only (no absence claim); loop-internal interleavings are sampled.")

META = {
    "C01": {
        "engine": "simexec", "design_ref": "DESIGN.md section 3 C01",
        "technique": "property-based testing (rapid) of the real scheduler on a scripted executor; trace-invariant oracle over generated DAGs, outcome scripts and harness-owned completion schedules",
        "level_text": "Generated search: tens of thousands of random DAG x flag x script x schedule cases per run, each judged by an ordering invariant over the observed start/finish trace; holds on everything generated, proves nothing beyond it.",
        "level_note": SIM_NOTE,
    },
}

NOT_APPLICABLE = {}
