#!/usr/bin/env python3
"""Confirms and evaluates one seeded change produced by an independent sub-agent.

usage: ./seedeval.py <PID> <variant> [--checks C01,C02] [--src /tmp/seedwork/out_<PID>/<variant>] [--keep]

1. In a scratch worktree of /repo's HEAD (outside /repo and /verif, removed afterwards):
   - the demonstration passes on the unchanged tree,
   - the patch applies, `go build ./...` succeeds,
   - the demonstration fails with the patch,
   - the existing test suite (BASELINE command, demo files removed) shows only baseline failures.
2. Runs the quick tier of the property's check (and any --checks) against that patched
   worktree (VERIF_REPO mode of ./check: private harness copy, /verif/evidence untouched).
3. Writes /verif/seeded/<PID>-<variant>/{patch.diff, demo files, demo_cmd.txt, meta.json}.
Nothing is ever applied to or committed in /repo.
"""
import json
import os
import re
import shutil
import subprocess
import sys
import time

ROOT = os.path.dirname(os.path.abspath(__file__))
GOENV = dict(os.environ, GOFLAGS="-mod=mod", GOPROXY="off", GOSUMDB="off", GOTOOLCHAIN="local")
BASELINE_FAIL = {"TestClient_RunDAG", "TestWriterErrorHandling"}


def sh(cmd, cwd=None, timeout=3000, env=None):
    p = subprocess.run(cmd, cwd=cwd, shell=isinstance(cmd, str), env=env or GOENV, stdout=subprocess.PIPE, stderr=subprocess.STDOUT, timeout=timeout)
    return p.returncode, p.stdout.decode("utf-8", "replace")


def main():
    a = sys.argv[1:]
    pid, var = a[0], a[1]
    checks = [pid]
    src = "/tmp/seedwork/out_%s/%s" % (pid, var)
    keep = False
    i = 2
    while i < len(a):
        if a[i] == "--checks":
            checks = a[i + 1].split(","); i += 1
        elif a[i] == "--src":
            src = a[i + 1]; i += 1
        elif a[i] == "--keep":
            keep = True
        i += 1
    wt = "/tmp/seedwork/verify_%s%s" % (pid, var)
    sh(["git", "-C", "/repo", "worktree", "remove", "--force", wt])
    rc, o = sh(["git", "-C", "/repo", "worktree", "add", "--detach", wt, "HEAD"])
    if rc != 0:
        print(o); return 2
    res = {"property": pid, "variant": var, "repo_head": sh(["git", "-C", "/repo", "rev-parse", "HEAD"])[1].strip()}
    try:
        meta = json.load(open(os.path.join(src, "meta.json")))
        demo_cmd_txt = open(os.path.join(src, "demo_cmd.txt")).read()
        demos = [f for f in os.listdir(src) if f not in ("patch.diff", "meta.json", "demo_cmd.txt") and not f.endswith(".diff")]
        # where do the demo files go / what is the command
        lines = [l.strip() for l in demo_cmd_txt.splitlines() if l.strip() and not l.strip().startswith("#")]
        cmdline = next((l for l in lines if re.search(r"\bgo (test|run)\b", l) or l.startswith("sh ") or l.startswith("bash ") or l.startswith("./")), None)
        m = re.search(r"(\./[\w/.-]+?)/?(\s|$)", cmdline.split("go test")[-1]) if cmdline and "go test" in cmdline else None
        pkgdir = m.group(1) if m else None
        cpdst = {}
        for l in lines:
            mm = re.match(r"cp\s+(\S+)\s+(\S+)", l)
            if mm:
                cpdst[os.path.basename(mm.group(1))] = mm.group(2)
        placed = []
        for f in demos:
            dst = cpdst.get(f) or (os.path.join(pkgdir, f) if pkgdir and f.endswith(".go") else f)
            dstp = os.path.join(wt, dst)
            if os.path.isdir(dstp):
                dstp = os.path.join(dstp, f)
            os.makedirs(os.path.dirname(dstp), exist_ok=True)
            shutil.copy(os.path.join(src, f), dstp)
            placed.append(dstp)
        res["demo_cmd"] = cmdline
        if not cmdline:
            print("cannot find the demo command in demo_cmd.txt:\n" + demo_cmd_txt); return 2

        def demo():
            fails = 0
            out = ""
            for _ in range(3):
                rc, out = sh(cmdline, cwd=wt, timeout=900)
                if rc != 0:
                    fails += 1
            return fails, out[-1500:]

        f0, o0 = demo()
        res["demo_failures_without_change_of_3"] = f0
        rc, o = sh(["git", "apply", os.path.join(src, "patch.diff")], cwd=wt)
        res["patch_applies"] = rc == 0
        if rc != 0:
            print("patch does not apply:\n" + o)
            res["error"] = "patch does not apply: " + o[-500:]
            return finish(res, src, pid, var, meta, demos, ok=False)
        rc, o = sh("go build ./...", cwd=wt)
        res["builds"] = rc == 0
        f1, o1 = demo()
        res["demo_failures_with_change_of_3"] = f1
        res["demo_output_with_change"] = o1[-800:]
        for p in placed:
            os.remove(p)
        rc, o = sh("go test -vet=off -count=1 -timeout 25m ./... 2>&1", cwd=wt, timeout=2400)
        failed = set(re.findall(r"^--- FAIL: (\w+)", o, re.M))
        res["suite_failed_tests"] = sorted(failed)
        res["suite_only_baseline_failures"] = failed <= BASELINE_FAIL and "[build failed]" not in o and "panic:" not in o
        if not res["suite_only_baseline_failures"] and "[build failed]" not in o:
            # the pinned suite has tests that are flaky under load (internal/agent
            # HTTP_HandleCancel / FinishWithTimeout fail on the untouched tree too when
            # the machine is busy): a failing package is re-run alone up to 4 times and
            # counts as passing if any of those runs passes.
            pkgs = set(re.findall(r"^FAIL\s+(\S+)\s", o, re.M))
            still = set()
            for pk in pkgs:
                okp = False
                for _ in range(4):
                    rc2, o2 = sh("go test -vet=off -count=1 %s 2>&1" % pk, cwd=wt, timeout=1200)
                    f2 = set(re.findall(r"^--- FAIL: (\w+)", o2, re.M))
                    if f2 <= BASELINE_FAIL:
                        okp = True
                        break
                if not okp:
                    still.add(pk)
            res["suite_packages_rerun_alone"] = sorted(pkgs)
            res["suite_packages_still_failing"] = sorted(still)
            res["suite_only_baseline_failures"] = not still
        sh(["git", "checkout", "--", "go.mod", "go.sum"], cwd=wt)
        ok = f0 == 0 and f1 >= 2 and res["builds"] and res["suite_only_baseline_failures"]
        res["confirmed"] = ok
        # run the checks against the patched worktree
        res["checks"] = {}
        for c in checks:
            t0 = time.time()
            env = dict(os.environ, VERIF_REPO=wt)
            rc, o = sh([os.path.join(ROOT, "check"), c, "quick"], cwd=ROOT, env=env, timeout=3000)
            det = [l.strip()[:500] for l in o.splitlines() if "violation detail" in l][:2]
            verdict = "CAUGHT" if rc == 1 and "VIOLATION property=%s" % c in o else ("INCONCLUSIVE" if rc == 2 else "MISSED")
            res["checks"][c] = {"verdict": verdict, "wall_s": round(time.time() - t0), "detail": det}
            print("%s-%s  check %s: %s (%ds) %s" % (pid, var, c, verdict, time.time() - t0, det[0][:200] if det else ""), flush=True)
        return finish(res, src, pid, var, meta, demos, ok)
    finally:
        if not keep:
            sh(["git", "-C", "/repo", "worktree", "remove", "--force", wt])
            shutil.rmtree(wt, ignore_errors=True)
            h = __import__("hashlib").sha1(os.path.realpath(wt).encode()).hexdigest()[:10]
            shutil.rmtree(os.path.join(ROOT, "out", "alt", h), ignore_errors=True)


def finish(res, src, pid, var, meta, demos, ok):
    print(json.dumps({k: v for k, v in res.items() if k not in ("demo_output_with_change",)}, indent=1))
    if not ok:
        print("NOT CONFIRMED — not kept")
        return 1
    dst = os.path.join(ROOT, "seeded", "%s-%s" % (pid, var))
    os.makedirs(dst, exist_ok=True)
    shutil.copy(os.path.join(src, "patch.diff"), dst)
    shutil.copy(os.path.join(src, "demo_cmd.txt"), dst)
    for f in demos:
        shutil.copy(os.path.join(src, f), dst)
    out = {
        "property": pid, "variant": var,
        "summary": meta.get("summary"), "needs_to_manifest": meta.get("needs_to_manifest"),
        "files_changed": meta.get("files_changed"),
        "origin": "independent sub-agent given only the property text and a scratch worktree",
        "confirmed_by_me": {
            "repo_head": res["repo_head"],
            "what_i_ran": ["git worktree add <scratch> HEAD", "demo x3 on the unchanged tree", "git apply patch.diff", "go build ./...", "demo x3 with the change",
                           "go test -vet=off -count=1 -timeout 25m ./... (demo removed)", "VERIF_REPO=<scratch> ./check <id> quick"],
            "demo_failures_without_change_of_3": res["demo_failures_without_change_of_3"],
            "demo_failures_with_change_of_3": res["demo_failures_with_change_of_3"],
            "suite_only_baseline_failures": res["suite_only_baseline_failures"],
            "suite_failed_tests": res["suite_failed_tests"],
        },
        "detection": res["checks"],
    }
    json.dump(out, open(os.path.join(dst, "meta.json"), "w"), indent=1)
    return 0


if __name__ == "__main__":
    sys.exit(main())
