#!/usr/bin/env python3
"""Regenerates MANIFEST.json from checks_cfg.py + manifest_meta.py (kept valid at all times)."""
import json, os, subprocess, sys
ROOT = os.path.dirname(os.path.abspath(__file__))
sys.path.insert(0, ROOT)
from checks_cfg import CHECKS
from manifest_meta import META, NOT_APPLICABLE, ENGINES, NOTES

props = [json.loads(l)["id"] for l in open(os.path.join(ROOT, "properties.jsonl"))]
hook_commits = subprocess.run(["git", "-C", "/repo", "log", "--format=%H", "--grep=^verif:"], stdout=subprocess.PIPE).stdout.decode().split()
checks = []
for pid in props:
    if pid not in CHECKS:
        continue
    m = META[pid]
    checks.append({
        "property_id": pid,
        "quick_cmd": "./check %s quick" % pid,
        "thorough_cmd": "./check %s thorough" % pid,
        "evidence_file": "/verif/evidence/%s.json" % pid,
        "replay_cmd_template": "./check %s --replay {path}" % pid,
        "engine": m["engine"],
        "level_claimed": {"category": CHECKS[pid]["level"], "text": m["level_text"], "design_ref": m["design_ref"]},
        "level_note": m["level_note"],
        "technique": m["technique"],
    })
na = [{"property_id": p, "reason": NOT_APPLICABLE.get(p, "check not built yet in this session (work in progress; see DESIGN.md section 3 for the planned generated check)")} for p in props if p not in CHECKS]
man = {
    "version": 1,
    "setup_cmd": "./check --setup",
    "hooks": {
        "guard": "verif",
        "enable": "go build tag: every check compiles /repo's working tree with `-tags verif` through the harness module (replace => /repo)",
        "baseline_off_cmd": "cd /repo && go test -json -vet=off -count=1 -timeout 25m ./...",
        "source_commits": hook_commits,
        "add_only": True,
    },
    "engines": ENGINES,
    "checks": checks,
    "not_applicable": na,
    "notes": NOTES,
}
json.dump(man, open(os.path.join(ROOT, "MANIFEST.json"), "w"), indent=1)
print("MANIFEST.json: %d checks, %d not claimed" % (len(checks), len(na)))
