#!/usr/bin/env python3
"""Sensitivity (mutation) protocol: applies a hand-made regression to /repo's working tree,
runs the property's quick check, and reverts (git checkout). Never commits anything.
usage: ./mutate.py <mutant-name>... | --list | --all [PID]"""
import json, os, subprocess, sys, time
ROOT = os.path.dirname(os.path.abspath(__file__))
sys.path.insert(0, ROOT)
from mutants_cfg import MUTANTS

def apply(m):
    for f, old, new in m["edits"]:
        p = os.path.join("/repo", f)
        s = open(p).read()
        if s.count(old) != 1:
            raise SystemExit("mutant %s: pattern occurs %d times in %s" % (m["name"], s.count(old), f))
        open(p, "w").write(s.replace(old, new))

def revert():
    subprocess.run(["git", "-C", "/repo", "checkout", "--", "."], check=True)

def main():
    names = sys.argv[1:]
    if names and names[0] == "--list":
        for m in MUTANTS: print(m["name"], m["props"])
        return
    if names and names[0] == "--all":
        pid = names[1] if len(names) > 1 else None
        names = [m["name"] for m in MUTANTS if pid is None or pid in m["props"]]
    st = subprocess.run(["git", "-C", "/repo", "status", "--porcelain"], stdout=subprocess.PIPE).stdout.decode().strip()
    if st:
        raise SystemExit("/repo working tree not clean:\n" + st)
    res = []
    for n in names:
        m = next(x for x in MUTANTS if x["name"] == n)
        for pid in m["props"]:
            try:
                apply(m)
                # must still compile
                b = subprocess.run(["go", "build", "./..."], cwd="/repo", stdout=subprocess.PIPE, stderr=subprocess.STDOUT)
                if b.returncode != 0:
                    print("MUTANT DOES NOT COMPILE", n, b.stdout.decode()[-500:]); res.append((n, pid, "nocompile", 0)); continue
                t0 = time.time()
                p = subprocess.run([os.path.join(ROOT, "check"), pid, "quick"], cwd=ROOT, stdout=subprocess.PIPE, stderr=subprocess.STDOUT)
                out = p.stdout.decode()
                verdict = "CAUGHT" if p.returncode == 1 and "VIOLATION property=%s" % pid in out else ("INCONCLUSIVE" if p.returncode == 2 else "MISSED")
                det = [l for l in out.splitlines() if "violation detail" in l][:1]
                print("%-40s %s %-12s %.0fs %s" % (n, pid, verdict, time.time() - t0, det[0][:300] if det else ""), flush=True)
                res.append((n, pid, verdict, time.time() - t0))
            finally:
                revert()
    json.dump(res, open(os.path.join(ROOT, "out", "mutation_last.json"), "w"))

if __name__ == "__main__":
    main()
