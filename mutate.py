#!/usr/bin/env python3
"""Sensitivity (mutation) protocol: applies a hand-made regression to a scratch worktree of
/repo's HEAD (outside /repo and /verif, removed afterwards), runs the property's quick check
against it (VERIF_REPO mode of ./check) and reports CAUGHT / MISSED. /repo is never touched,
so several mutants can be evaluated in parallel (-j N).
usage: ./mutate.py [-j N] <mutant-name>... | --list | --all [PID]"""
import json, os, shutil, subprocess, sys, time, hashlib
from concurrent.futures import ThreadPoolExecutor
ROOT = os.path.dirname(os.path.abspath(__file__))
sys.path.insert(0, ROOT)
from mutants_cfg import MUTANTS

GOENV = dict(os.environ, GOFLAGS="-mod=mod", GOPROXY="off", GOSUMDB="off", GOTOOLCHAIN="local")


def run_one(m, pid):
    wt = "/tmp/seedwork/mut_%s_%s" % (m["name"], pid)
    subprocess.run(["git", "-C", "/repo", "worktree", "remove", "--force", wt], stdout=subprocess.DEVNULL, stderr=subprocess.DEVNULL)
    os.makedirs("/tmp/seedwork", exist_ok=True)
    p = subprocess.run(["git", "-C", "/repo", "worktree", "add", "--detach", wt, "HEAD"], stdout=subprocess.PIPE, stderr=subprocess.STDOUT)
    if p.returncode != 0:
        return (m["name"], pid, "ERROR", 0, p.stdout.decode()[-300:])
    try:
        for f, old, new in m["edits"]:
            fp = os.path.join(wt, f)
            s = open(fp).read()
            if s.count(old) != 1:
                return (m["name"], pid, "STALE", 0, "pattern occurs %d times in %s" % (s.count(old), f))
            open(fp, "w").write(s.replace(old, new))
        b = subprocess.run(["go", "build", "./..."], cwd=wt, env=GOENV, stdout=subprocess.PIPE, stderr=subprocess.STDOUT)
        if b.returncode != 0:
            return (m["name"], pid, "NOCOMPILE", 0, b.stdout.decode()[-300:])
        t0 = time.time()
        p = subprocess.run([os.path.join(ROOT, "check"), pid, "quick"], cwd=ROOT, env=dict(os.environ, VERIF_REPO=wt), stdout=subprocess.PIPE, stderr=subprocess.STDOUT)
        out = p.stdout.decode()
        verdict = "CAUGHT" if p.returncode == 1 and "VIOLATION property=%s" % pid in out else ("INCONCLUSIVE" if p.returncode == 2 else "MISSED")
        det = [l for l in out.splitlines() if "violation detail" in l][:1]
        return (m["name"], pid, verdict, time.time() - t0, det[0][:300] if det else "")
    finally:
        subprocess.run(["git", "-C", "/repo", "worktree", "remove", "--force", wt], stdout=subprocess.DEVNULL, stderr=subprocess.DEVNULL)
        shutil.rmtree(wt, ignore_errors=True)
        h = hashlib.sha1(os.path.realpath(wt).encode()).hexdigest()[:10]
        shutil.rmtree(os.path.join(ROOT, "out", "alt", h), ignore_errors=True)


def main():
    names = sys.argv[1:]
    jobs = 1
    if names and names[0] == "-j":
        jobs = int(names[1]); names = names[2:]
    if names and names[0] == "--list":
        for m in MUTANTS: print(m["name"], m["props"])
        return
    if names and names[0] == "--all":
        pid = names[1] if len(names) > 1 else None
        names = [m["name"] for m in MUTANTS if pid is None or pid in m["props"]]
    work = []
    for n in names:
        m = next(x for x in MUTANTS if x["name"] == n)
        for pid in m["props"]:
            work.append((m, pid))
    res = []
    with ThreadPoolExecutor(max_workers=jobs) as ex:
        for r in ex.map(lambda w: run_one(*w), work):
            print("%-44s %s %-12s %4.0fs %s" % r, flush=True)
            res.append(r)
    os.makedirs(os.path.join(ROOT, "out"), exist_ok=True)
    json.dump(res, open(os.path.join(ROOT, "out", "mutation_last.json"), "w"))


if __name__ == "__main__":
    main()
