"""Hand-made regressions used to test the sensitivity of each check (DESIGN.md section 2.10).
Each is (file, old, new) string edits on /repo; all compile and are reverted after the run."""
S = "internal/dag/scheduler/scheduler.go"
N = "internal/dag/scheduler/node.go"
G = "internal/dag/scheduler/graph.go"

MUTANTS = [
    {"name": "c01-running-dep-is-ready", "props": ["C01"],
     "edits": [(S, "\t\tcase NodeStatusNone, NodeStatusRunning:\n\t\t\tready = false", "\t\tcase NodeStatusRunning:\n\t\t\tcontinue\n\t\tcase NodeStatusNone:\n\t\t\tready = false")]},
    {"name": "c01-failed-dep-is-ready", "props": ["C01"],
     "edits": [(S, "\t\t\tif !n.data.Step.ContinueOn.Failure {\n\t\t\t\tready = false", "\t\t\tif !n.data.Step.ContinueOn.Failure && len(g.to[node.id]) > 1 {\n\t\t\t\tready = false")]},
    {"name": "c01-skipped-dep-is-ready", "props": ["C01"],
     "edits": [(S, "\t\t\tif !n.data.Step.ContinueOn.Skipped {\n\t\t\t\tready = false", "\t\t\tif !n.data.Step.ContinueOn.Skipped && node.data.Step.ContinueOn.Skipped {\n\t\t\t\tready = false")]},
    {"name": "c02-upstream-failed-labelled-none", "props": ["C02"],
     "edits": [(S, "\t\t\t\tready = false\n\t\t\t\tnode.setStatus(NodeStatusCancel)\n\t\t\t\tnode.SetError(errUpstreamFailed)", "\t\t\t\tready = false\n\t\t\t\tnode.setStatus(NodeStatusSkipped)\n\t\t\t\tnode.SetError(errUpstreamFailed)")]},
    {"name": "c02-continueon-skipped-ignored", "props": ["C02"],
     "edits": [(S, "if !n.data.Step.ContinueOn.Skipped {", "if !n.data.Step.ContinueOn.Skipped || len(g.to[node.id]) > 2 {")]},
    {"name": "c02-precond-unmet-finished", "props": ["C02"],
     "edits": [(S, "\t\t\t\t\tnode.setStatus(NodeStatusSkipped)\n\t\t\t\t\tnode.SetError(err)", "\t\t\t\t\tnode.setStatus(NodeStatusSuccess)\n\t\t\t\t\tnode.SetError(err)")]},
    {"name": "c03-retry-limit-off-by-one", "props": ["C03"],
     "edits": [(S, "node.data.Step.RetryPolicy.Limit > node.getRetryCount()", "node.data.Step.RetryPolicy.Limit >= node.getRetryCount()")]},
    {"name": "c03-missing-inc-retry", "props": ["C03"],
     "edits": [(S, "\t\t\t\t\t\t\tnode.incRetryCount()\n", "\t\t\t\t\t\t\tif node.getRetryCount() < 1 {\n\t\t\t\t\t\t\t\tnode.incRetryCount()\n\t\t\t\t\t\t\t}\n")]},
    {"name": "c03-status-none-before-retry-sleep", "props": ["C03"],
     "edits": [(S, "\t\t\t\t\t\t\ttime.Sleep(node.data.Step.RetryPolicy.Interval)\n\t\t\t\t\t\t\tnode.setRetriedAt(time.Now())\n\t\t\t\t\t\t\tnode.setStatus(NodeStatusNone)", "\t\t\t\t\t\t\tnode.setStatus(NodeStatusNone)\n\t\t\t\t\t\t\ttime.Sleep(node.data.Step.RetryPolicy.Interval)\n\t\t\t\t\t\t\tnode.setRetriedAt(time.Now())")]},
    {"name": "c03-dry-ignored-in-exec", "props": ["C03"],
     "edits": [(S, "func (sc *Scheduler) execNode(ctx context.Context, n *Node) error {\n\tif !sc.dry {", "func (sc *Scheduler) execNode(ctx context.Context, n *Node) error {\n\tif !sc.dry || len(n.data.Step.Depends) > 1 {")]},
    {"name": "c04-onexit-first", "props": ["C04"],
     "edits": [(S, "\thandlers = append(handlers, dag.HandlerOnExit)\n", "\thandlers = append([]dag.HandlerType{dag.HandlerOnExit}, handlers...)\n")]},
    {"name": "c04-error-runs-onsuccess", "props": ["C04"],
     "edits": [(S, "\tcase StatusError:\n\t\thandlers = append(handlers, dag.HandlerOnFailure)", "\tcase StatusError:\n\t\thandlers = append(handlers, dag.HandlerOnSuccess)")]},
    {"name": "c04-handlers-before-wait", "props": ["C04"],
     "edits": [(S, "\twg.Wait()\n\n\tvar handlers []dag.HandlerType", "\tif sc.maxActiveRuns != 2 {\n\t\twg.Wait()\n\t}\n\n\tvar handlers []dag.HandlerType")]},
    {"name": "c04-cancel-label-lost", "props": ["C04"],
     "edits": [(S, "\tif sc.isCanceled() && !sc.isSucceed(g) {\n\t\treturn StatusCancel\n\t}", "\tif sc.isCanceled() && !sc.isSucceed(g) && !sc.isError() {\n\t\treturn StatusCancel\n\t}")]},
    {"name": "c15-gt-instead-of-ge", "props": ["C15"],
     "edits": [(S, "sc.runningCount(g) >= sc.maxActiveRuns", "sc.runningCount(g) > sc.maxActiveRuns")]},
    {"name": "c15-count-includes-none", "props": ["C15"],
     "edits": [(S, "\t\tif node.State().Status == NodeStatusRunning {\n\t\t\tcount++", "\t\tif node.State().Status == NodeStatusRunning || node.State().Status == NodeStatusNone {\n\t\t\tcount++")]},
    {"name": "c15-k0-treated-as-one", "props": ["C15"],
     "edits": [(S, "if sc.maxActiveRuns > 0 && sc.runningCount(g) >= sc.maxActiveRuns {", "if sc.runningCount(g) >= 4 || sc.maxActiveRuns > 0 && sc.runningCount(g) >= sc.maxActiveRuns {")]},
]
